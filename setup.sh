#!/bin/bash
# setup_cmd: offline. productmd is pure Python and is imported straight from /repo's working tree,
# so there is nothing to compile; make sure Hypothesis (and, best effort, atheris) can be imported.
HERE="$(cd "$(dirname "${BASH_SOURCE[0]}")" && pwd)"
cd "$HERE" || exit 2
PY=/venv/bin/python
[ -x "$PY" ] || PY=python3
export PIP_NO_INDEX=1
mkdir -p evidence replays
if ! PYTHONPATH="$HERE/.deps" "$PY" -c "import hypothesis, six" 2>/dev/null; then
    "$PY" -m pip install --quiet --no-index --find-links /opt/veriftools/wheels --target "$HERE/.deps" hypothesis six || exit 2
fi
if ! PYTHONPATH="$HERE/.deps" "$PY" -c "import atheris" 2>/dev/null; then
    "$PY" -m pip install --quiet --no-index --find-links /opt/veriftools/wheels --target "$HERE/.deps" atheris \
        || echo "setup: atheris not installable here; coverage-guided tier will be skipped (reported in evidence)"
fi
PYTHONPATH="$HERE/.deps" "$PY" -c "import hypothesis; print('setup ok: hypothesis', hypothesis.__version__)"
