"""images.json: case descriptions, builder, snapshots, reference document model."""
import copy
import random

from hypothesis import strategies as st

from pbt import gen

# documented tables (productmd.images.SUPPORTED_IMAGE_TYPES / SUPPORTED_IMAGE_FORMATS), frozen copy
IMAGE_TYPES = ['appx', 'boot', 'cd', 'docker', 'dvd', 'dvd-debuginfo', 'dvd-ostree', 'dvd-ostree-osbuild', 'ec2', 'fex', 'kvm',
               'live', 'live-osbuild', 'liveimg-squashfs', 'netinst', 'ociarchive', 'p2v', 'qcow', 'qcow2', 'raw', 'raw-xz',
               'rescue', 'rhevm-ova', 'tar-gz', 'vagrant-hyperv', 'vagrant-libvirt', 'vagrant-virtualbox',
               'vagrant-vmware-fusion', 'vdi', 'vhd-compressed', 'vmdk', 'vpc', 'vsphere-ova']
IMAGE_FORMATS = ['appx', 'erofs', 'erofs.gz', 'erofs.xz', 'iso', 'liveimg.squashfs', 'ociarchive', 'qcow', 'qcow2', 'raw',
                 'raw.xz', 'rhevm.ova', 'squashfs', 'squashfs.gz', 'squashfs.xz', 'tar.gz', 'tar.xz', 'vagrant-hyperv.box',
                 'vagrant-libvirt.box', 'vagrant-virtualbox.box', 'vagrant-vmware-fusion.box', 'vdi', 'vhd', 'vhd.gz',
                 'vhd.xz', 'vmdk', 'vsphere.ova']
ATTRS = ["path", "mtime", "size", "volume_id", "type", "format", "arch", "disc_number", "disc_count", "checksums",
         "implant_md5", "bootable", "subvariant", "unified", "additional_variants"]
IDENTITY = ["subvariant", "type", "format", "arch", "disc_number", "unified", "additional_variants"]

VARIANTS = ["Server", "Client", "Workstation", "Server-optional", "Everything", "Cloud"]
checksum_types = ["md5", "sha1", "sha256", "sha512"]

# the mapping is the caller's: type names are stored the way the producer spelled them
_checksums = st.dictionaries(st.sampled_from(checksum_types + ["md5", "sha256", "SHA256", "Sha1", "sha-256"]), st.one_of(gen.hexdigest, st.sampled_from(["XXXXXX", "YYYYYY", "00"])),
                             min_size=1, max_size=3)


@st.composite
def image_record(draw, small_pool=False):
    unified = draw(st.sampled_from([False, False, True]))
    rec = {
        "path": draw(gen.rel_path),
        "mtime": draw(st.one_of(st.integers(0, 2 ** 31), st.integers(-5, 2 ** 40), st.sampled_from([2 ** 53 + 1, 2 ** 63 - 1]))),
        "size": draw(st.one_of(st.integers(1, 10 ** 6), st.integers(2 ** 32, 2 ** 45), st.just(2 ** 32), st.just(2 ** 31),
                               st.sampled_from([2 ** 53 + 1, 2 ** 63 - 1, 2 ** 64 - 1, 2 ** 64 + 1, 10 ** 20 + 7]), st.integers(2 ** 53, 2 ** 70))),
        "volume_id": draw(st.one_of(st.none(), gen.name_text)),
        "type": draw(st.sampled_from(["dvd", "boot", "qcow2"]) if small_pool else st.sampled_from(IMAGE_TYPES)),
        "format": draw(st.sampled_from(["iso", "qcow2"]) if small_pool else st.sampled_from(IMAGE_FORMATS)),
        "arch": draw(st.sampled_from(["x86_64", "src"]) if small_pool else st.one_of(gen.arch_pool, st.sampled_from(["src", "noarch", "x86_64"]))),
        "disc_number": draw(st.integers(1, 2) if small_pool else st.integers(0, 12)),
        "disc_count": draw(st.integers(0, 12)),
        "checksums": draw(_checksums),
        "implant_md5": draw(st.one_of(st.none(), gen.hex32, st.text(st.sampled_from(list("0123456789abcdefxyz")), min_size=32, max_size=32))),
        "bootable": draw(st.booleans()),
        "subvariant": draw(st.sampled_from(["", "Server", "KDE"]) if small_pool else st.one_of(st.sampled_from(["", "Server", "KDE", "Workstation"]), gen.name_text)),
        "unified": unified,
        "additional_variants": draw(st.lists(st.sampled_from(VARIANTS), max_size=3)) if unified else [],
    }
    return rec


def identity(rec):
    return tuple(repr(rec[k]) for k in IDENTITY)


@st.composite
def images_desc(draw, max_images=8):
    n = draw(st.integers(0, max_images)) if draw(st.integers(0, 9)) == 0 else draw(st.integers(1, max_images))
    recs = [draw(image_record()) for _ in range(n)]
    # sometimes force identity duplicates (legal when the checksums agree)
    if len(recs) >= 2 and draw(st.booleans()):
        src, dst = recs[0], recs[-1]
        for k in IDENTITY:
            dst[k] = src[k]
    by_identity = {}
    for rec in recs:
        first = by_identity.setdefault(identity(rec), rec)
        if first is not rec:
            rec["checksums"] = dict(first["checksums"])
    cells_used = {}
    out = []
    for i, rec in enumerate(recs):
        ncells = draw(st.sampled_from([1, 1, 1, 2, 3]))
        cells = draw(st.lists(st.tuples(st.sampled_from(VARIANTS), st.one_of(gen.arch_pool, st.sampled_from(gen.BINARY_ARCHES))),
                              min_size=ncells, max_size=ncells, unique=True))
        cells = [list(c) for c in cells]
        if i == len(recs) - 1 and len(recs) >= 2 and identity(rec) == identity(recs[0]) and draw(st.booleans()):
            # the twin (same identity, same checksums, another file) sits right next to the original: in the same cell
            cells = [list(out[0]["cells"][0])] + [c for c in cells if c != out[0]["cells"][0]][:ncells - 1]
        # distinct paths inside one cell
        path = rec["path"]
        while any(path in cells_used.get(tuple(c), ()) for c in cells):
            path = "%s.%d" % (path, i)
        rec["path"] = path
        for c in cells:
            cells_used.setdefault(tuple(c), set()).add(path)
        out.append({"rec": rec, "cells": cells, "share_object": draw(st.booleans()),
                    # rarely: the image is taken out of its cells again (leaves empty cells behind)
                    "removed": draw(st.integers(0, 11)) == 0})
    return {"compose": draw(gen.compose_section_desc()), "images": out, "refile": draw(st.booleans())}


def make_image(parent, rec):
    from productmd.images import Image
    img = Image(parent)
    for k in ATTRS:
        v = rec[k]
        if isinstance(v, (dict, list)):
            v = type(v)(v)   # the library keeps references; give every object its own containers
        setattr(img, k, v)
    return img


def fill_compose(section, c):
    section.id, section.type, section.date, section.respin = c["id"], c["type"], c["date"], c["respin"]
    section.label, section.final = c["label"], c["final"]


def build_images(desc, plan=0, version="1.2"):
    from productmd.images import Images
    rnd = random.Random(plan) if plan else None
    im = Images()
    im.header.version = version
    fill_compose(im.compose, desc["compose"])
    adds = []
    late = []
    for n, entry in enumerate(desc["images"]):
        # some callers file the (still blank) object first and describe it afterwards: where an image is filed does not depend on
        # what it says at that moment
        fill_late = bool(rnd) and (plan + n) % 3 == 0

        def one(entry=entry, fill_late=fill_late):
            if not fill_late:
                return make_image(im, entry["rec"])
            from productmd.images import Image
            img = Image(im)
            late.append((img, entry["rec"]))
            return img
        shared = one() if entry.get("share_object", True) else None
        for variant, arch in entry["cells"]:
            adds.append((variant, arch, shared if shared is not None else one()))
    if rnd:
        rnd.shuffle(adds)
    for variant, arch, img in adds:
        im.add(variant, arch, img)
    for img, rec in late:
        for k in ATTRS:
            v = rec[k]
            setattr(img, k, type(v)(v) if isinstance(v, (dict, list)) else v)
    if desc.get("refile"):
        # filing an object where it already is changes nothing (a unified image filed under its own variant and under each of its
        # additional variants, one of which is its own)
        for variant, arch, img in adds[::2]:
            im.add(variant, arch, img)
    for entry in desc["images"]:
        if entry.get("removed"):
            for variant, arch in entry["cells"]:
                for img in list(im.images[variant][arch]):
                    if img.path == entry["rec"]["path"]:
                        im.images[variant][arch].remove(img)
    return im


def modify_images(desc, im):
    """a valid change of an EXISTING manifest through the public attributes of the images filed in it; returns the new description"""
    d = copy.deepcopy(desc)
    for e in d["images"]:
        r = e["rec"]
        r["size"], r["mtime"], r["bootable"], r["volume_id"] = r["size"] + 1, r["mtime"] + 1, not r["bootable"], "relabelled"
    seen = set()
    for variant in im.images:
        for arch in im.images[variant]:
            for img in im.images[variant][arch]:
                if id(img) not in seen:
                    seen.add(id(img))
                    img.size, img.mtime, img.bootable, img.volume_id = img.size + 1, img.mtime + 1, not img.bootable, "relabelled"
    d["compose"]["respin"] += 1
    im.compose.respin = d["compose"]["respin"]
    return d


def live(desc):
    return [e for e in desc["images"] if not e.get("removed")]


def rec_tuple(rec):
    return tuple((k, repr(sorted(rec[k].items())) if isinstance(rec[k], dict) else repr(rec[k])) for k in ATTRS)


def expected_cells(desc):
    cells = {}
    for entry in live(desc):
        for variant, arch in entry["cells"]:
            cells.setdefault((variant, arch), []).append(rec_tuple(entry["rec"]))
    return {k: sorted(v) for k, v in cells.items()}


def snap_cells(im):
    cells = {}
    for variant in im.images:
        for arch in im.images[variant]:
            lst = []
            for img in im.images[variant][arch]:
                lst.append(rec_tuple({k: getattr(img, k) for k in ATTRS}))
            cells[(variant, arch)] = sorted(lst)
    return cells


def expected_compose(c):
    return {"id": c["id"], "type": c["type"], "date": c["date"], "respin": c["respin"], "label": c["label"],
            "final": bool(c["final"]) if c["label"] else False}


def snap_compose(c):
    return {"id": c.id, "type": c.type, "date": c.date, "respin": c.respin, "label": c.label, "final": c.final}


def compose_doc(c):
    out = {"id": c["id"], "type": c["type"], "date": c["date"], "respin": c["respin"]}
    if c["label"]:
        out["label"] = c["label"]
        out["final"] = bool(c["final"])
    return out


def rec_doc(rec):
    out = {k: rec[k] for k in ATTRS if k not in ("unified", "additional_variants")}
    if rec["unified"]:
        out["unified"] = True
        out["additional_variants"] = list(rec["additional_variants"])
    return out


def expected_doc(desc):
    images = {}
    for entry in live(desc):
        for variant, arch in entry["cells"]:
            images.setdefault(variant, {}).setdefault(arch, []).append(rec_doc(entry["rec"]))
    for variant in images:
        for arch in images[variant]:
            images[variant][arch].sort(key=lambda r: r["path"])
    return {"header": {"type": "productmd.images", "version": "1.2"},
            "payload": {"compose": compose_doc(desc["compose"]), "images": images}}


def is_nontrivial(desc):
    cells = {}
    for entry in desc["images"]:
        for c in entry["cells"]:
            cells[tuple(c)] = cells.get(tuple(c), 0) + 1
    return bool(any(n >= 2 for n in cells.values()) or any(len(e["cells"]) >= 2 for e in desc["images"])
                or any(e["rec"]["unified"] for e in desc["images"]))


def labels(desc):
    out = []
    if any(len(e["cells"]) >= 2 and e.get("share_object") for e in desc["images"]):
        out.append("shared-object")
    if any(len(e["cells"]) >= 2 and not e.get("share_object") for e in desc["images"]):
        out.append("same-path-distinct-objects")
    if any(e["rec"]["unified"] for e in desc["images"]):
        out.append("unified")
    if any(e["rec"]["size"] >= 2 ** 32 for e in desc["images"]):
        out.append("size>=2^32")
    if any(len(e["rec"]["checksums"]) > 1 for e in desc["images"]):
        out.append("multi-checksum")
    if any(e.get("removed") for e in desc["images"]):
        out.append("emptied-cell")
    ids = [identity(e["rec"]) for e in desc["images"]]
    if len(set(ids)) < len(ids):
        out.append("equal-identity-equal-checksums")
    return out
