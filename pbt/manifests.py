"""rpms / modules / extra-files manifests: operation descriptions, executors and hand-written reference models
of the documented layout (no productmd code in the models)."""
import copy

from hypothesis import strategies as st

from pbt import gen

CATEGORIES = ["binary", "debug", "source"]
VARIANTS = ["Server", "Client", "Server-optional"]
ARCHES = ["x86_64", "ppc64le", "s390x"]

# ---------------------------------------------------------------------------------------------------------------
# NEVRA descriptions

_nm = st.one_of(st.sampled_from(["glibc", "glibc-devel", "python3-six", "kernel-rt-debug", "lib2to3", "a", "gtk+3", "x-1"]),
                st.lists(st.from_regex(r"[A-Za-z0-9._+]{1,5}", fullmatch=True), min_size=1, max_size=3).map("-".join))
_vr = st.one_of(st.sampled_from(["2.18", "11.fc20", "1.el7_9", "0.1.rc9", "1~beta", "7", "1.rpmfusion.fc39", "8.95.rpm4", "1.src", "2.noarch"]), st.from_regex(r"[A-Za-z0-9._+~^]{1,6}", fullmatch=True))
_ep = st.one_of(st.integers(0, 3), st.integers(0, 10 ** 6))
_prefix = st.sampled_from(["", "", "", "Packages/g/", "/abs/dir/", "a-b/c.d/", "host:/srv/", "2020-01-01T10:00/", "mnt/koji:prod/f20/", "http://kojipkgs:80/packages/", "a/b/c:d/e/", "x.rpm/"])


def nevra_text(d):
    if "invalid" in d:
        return d["invalid"]
    name, release, arch = d["name"], d["release"], d["arch"]
    if d["epoch"] is None and d.get("colon"):
        # a name without epoch that carries a colon somewhere else in the file name: still a name without epoch
        if d["colon"] == "name":
            name = name[:1] + ":" + name[1:]
        elif d["colon"] == "release":
            release = release[:1] + ":" + release[1:]
        else:
            arch = arch[:3] + ":" + arch[3:]
    s = d.get("prefix", "") + name + "-"
    if d["epoch"] is not None:
        s += "0" * d.get("pad", 0) + "%s:" % d["epoch"]          # "01:" and "1:" are the same epoch
    s += "%s-%s.%s" % (d["version"], release, arch)
    if d.get("rpm"):
        s += ".rpm"
    return s


def nevra_canonical(d):
    return "%s-%d:%s-%s.%s" % (d["name"], d["epoch"] or 0, d["version"], d["release"], d["arch"])


INVALID_NEVRAS = ["", "foo", "foo:bar", "a-1:1-1", "a-b-c", "0:1", ":", "glibc-0:2.18", "x.y.z", "glibc.x86_64", "a:b-c"]


@st.composite
def package_family(draw):
    """a source package with a few binary/debug sub-packages sharing its epoch:version-release"""
    base = {"name": draw(_nm), "epoch": draw(_ep), "version": draw(_vr), "release": draw(_vr)}
    subs = draw(st.lists(st.one_of(st.just(""), st.sampled_from(["-devel", "-libs", "-debuginfo", "-static", "-1", "-common-2"])),
                         min_size=1, max_size=4, unique=True))
    return {"base": base, "subs": subs, "src_arch": draw(st.sampled_from(["src", "src", "src", "nosrc"]))}


@st.composite
def rpm_op(draw, families, allow_breaks=True):
    fam = draw(st.sampled_from(families))
    base = fam["base"]
    srpm = dict(base, arch=fam["src_arch"], prefix=draw(st.sampled_from(["", "", "", "SRPMS/", "x:y/"])), rpm=draw(st.booleans()), pad=draw(st.sampled_from([0, 0, 0, 1, 2])))
    kind = draw(st.sampled_from(["binary", "binary", "debug", "source"]))
    if kind == "source":
        nevra = dict(srpm, prefix=draw(_prefix), rpm=draw(st.booleans()), pad=draw(st.sampled_from([0, 0, 0, 1, 2])))
        srpm_arg = None
    else:
        sub = draw(st.sampled_from(fam["subs"]))
        nevra = dict(base, name=base["name"] + sub, arch=draw(st.sampled_from(["x86_64", "noarch", "i686", "ppc64le", "armhfp"])),
                     prefix=draw(_prefix), rpm=draw(st.booleans()), pad=draw(st.sampled_from([0, 0, 0, 1, 2])))
        if draw(st.integers(0, 3)) == 0:
            nevra["epoch"] = draw(st.sampled_from([0, 1, 2, 7, 12]))      # a sub-package may carry its own Epoch tag
        srpm_arg = srpm
    op = {"variant": draw(st.sampled_from(VARIANTS)), "arch": draw(st.sampled_from(ARCHES)), "nevra": nevra,
          "path": draw(st.one_of(gen.rel_path, st.just("Server/x86_64/os/Packages/g/x.rpm"))),
          "sigkey": draw(st.one_of(st.none(), st.sampled_from(["246110C1", "246110c1", "FD431D51", "abcdef01", "ABCDEF01", "aBcDeF", "", "0", " "]))),
          "category": kind, "srpm": srpm_arg, "break": None}
    if allow_breaks and draw(st.integers(0, 3)) == 0:
        brk = draw(st.sampled_from(["arch", "category", "abs-path", "empty-path", "no-epoch", "unparsable", "srpm-missing", "srpm-for-source",
                                    "srpm-unparsable", "srpm-unparsable", "srpm-no-epoch", "category-arch", "wrong-type"]))
        op["break"] = brk
        if brk == "wrong-type":
            # a value of another type for one of the textual parameters
            which = draw(st.sampled_from(["path", "sigkey", "nevra", "srpm"]))
            odd = draw(st.sampled_from([5, 1.5, ["a"], {"a": 1}, True]))
            if which == "path":
                op["path"] = odd
            elif which == "sigkey":
                op["sigkey"] = odd
            elif which == "nevra":
                op["nevra"] = {"invalid": draw(st.sampled_from([None, 5, ["glibc-0:1-1.x86_64"]]))}
            elif kind == "source":
                op["path"] = odd
            else:
                op["srpm"] = {"invalid": draw(st.sampled_from([5, ["glibc-0:1-1.src"]]))}
        elif brk == "arch":
            op["arch"] = draw(gen.bad_arch)
        elif brk == "category":
            op["category"] = draw(st.sampled_from(["package", "Binary", "", None, "src", "debuginfo"]))
        elif brk == "abs-path":
            op["path"] = "/" + op["path"]
        elif brk == "empty-path":
            op["path"] = ""
        elif brk == "no-epoch":
            op["nevra"] = dict(nevra, epoch=None, colon=draw(st.sampled_from([None, None, "name", "release", "arch"])))
        elif brk == "unparsable":
            op["nevra"] = {"invalid": draw(st.sampled_from(INVALID_NEVRAS))}
        elif brk == "srpm-missing":
            if kind == "source":
                op["break"] = None
            else:
                op["srpm"] = None
        elif brk == "srpm-for-source":
            if kind != "source":
                op["break"] = None
            else:
                op["srpm"] = srpm
        elif brk == "srpm-unparsable":
            if kind == "source":
                op["break"] = None
            else:
                op["srpm"] = {"invalid": draw(st.sampled_from(INVALID_NEVRAS))}
        elif brk == "srpm-no-epoch":
            if kind == "source":
                op["break"] = None
            else:
                op["srpm"] = dict(srpm, epoch=None, colon=draw(st.sampled_from([None, None, "name", "release", "arch"])))
        elif brk == "category-arch":
            if kind == "source":
                op["nevra"] = dict(nevra, arch="x86_64")          # 'source' category for a binary package
            else:
                op["nevra"] = dict(nevra, arch=draw(st.sampled_from(["src", "nosrc"])))   # binary category for a source package
    return op


@st.composite
def rpm_history(draw, allow_breaks=True, max_ops=20):
    fams = draw(st.lists(package_family(), min_size=1, max_size=3))
    ops = draw(st.lists(rpm_op(fams, allow_breaks), min_size=1, max_size=max_ops))
    return {"ops": ops}


def rpm_model_apply(model, op):
    """returns True and updates `model` if the documented contract accepts the call, False if it must be refused"""
    if op["arch"] not in gen.RPM_ARCHES or op["arch"] in ("src", "nosrc"):
        return False
    if op["category"] not in CATEGORIES:
        return False
    if not isinstance(op["path"], str) or not op["path"] or op["path"].startswith("/"):
        return False
    if op["sigkey"] is not None and not isinstance(op["sigkey"], str):
        return False
    nevra = op["nevra"]
    if "invalid" in nevra or nevra["epoch"] is None:
        return False
    if op["category"] == "source" and op["srpm"] is not None:
        return False
    if op["category"] != "source" and op["srpm"] is None:
        return False
    if (op["category"] == "source") != (nevra["arch"] in ("src", "nosrc")):
        return False
    if op["srpm"] is not None:
        if "invalid" in op["srpm"] or op["srpm"]["epoch"] is None:
            return False
        key = nevra_canonical(op["srpm"])
    else:
        key = nevra_canonical(nevra)
    sig = op["sigkey"].lower() if op["sigkey"] is not None else None
    model.setdefault(op["variant"], {}).setdefault(op["arch"], {}).setdefault(key, {})[nevra_canonical(nevra)] = {
        "sigkey": sig, "path": op["path"], "category": op["category"]}
    return True


def rpm_call(rpms, op):
    srpm = nevra_text(op["srpm"]) if op["srpm"] is not None else None
    if srpm is None:
        return rpms.add(op["variant"], op["arch"], nevra_text(op["nevra"]), op["path"], op["sigkey"], op["category"])
    return rpms.add(op["variant"], op["arch"], nevra_text(op["nevra"]), op["path"], op["sigkey"], op["category"], srpm)


# ---------------------------------------------------------------------------------------------------------------
# modules

_part = st.one_of(st.sampled_from(["nodejs", "10", "8", "20180816123422", "6c81f848", "postgresql", "f28", "a-b", "1.2"]),
                  st.from_regex(r"[A-Za-z0-9._+-]{1,6}", fullmatch=True))


@st.composite
def module_op(draw, uid_pool, list_ids, allow_breaks=True):
    parts = draw(st.sampled_from(uid_pool))
    op = {"variant": draw(st.sampled_from(VARIANTS)), "arch": draw(st.sampled_from(ARCHES)), "uid_parts": parts,
          "uid_prefix": draw(st.sampled_from(["", "", "", "compose/modules/", "/abs/"])), "koji_tag": draw(st.sampled_from(["module-a-1", "module-b-2", "t"])),
          "path": draw(gen.rel_path), "category": draw(st.sampled_from(CATEGORIES)),
          "rpms": {"list": draw(st.sampled_from(list_ids)), "as_tuple": draw(st.integers(0, 5)) == 0},
          "break": None}
    if allow_breaks and draw(st.integers(0, 3)) == 0:
        brk = draw(st.sampled_from(["variant", "arch", "category", "uid-1part", "uid-5parts", "uid-empty-part", "uid-not-str", "abs-path",
                                    "empty-path", "koji-tag", "rpms-type"]))
        op["break"] = brk
        if brk == "variant":
            op["variant"] = draw(st.sampled_from(["", None]))
        elif brk == "arch":
            op["arch"] = draw(st.sampled_from(["", "X86_64", "foo", "i387", "x86-64"]))
        elif brk == "category":
            op["category"] = draw(st.sampled_from(["package", "", None, "Binary"]))
        elif brk == "uid-1part":
            op["uid_parts"] = parts[:1]
        elif brk == "uid-5parts":
            op["uid_parts"] = (list(parts) + ["x", "y", "z"])[:5]
        elif brk == "uid-empty-part":
            p = list(parts)
            p[draw(st.integers(0, len(p) - 1))] = ""
            op["uid_parts"] = p
            op["uid_prefix"] = ""     # "dir/:stream" would make "dir/" part of the name; not a documented refusal
        elif brk == "uid-not-str":
            op["uid_parts"] = None
        elif brk == "abs-path":
            op["path"] = "/" + op["path"]
        elif brk == "empty-path":
            op["path"] = draw(st.sampled_from(["", "", None, 5, ["p"]]))
        elif brk == "koji-tag":
            op["koji_tag"] = draw(st.sampled_from(["", None]))
        elif brk == "rpms-type":
            op["rpms"] = {"other": draw(st.sampled_from(["a-0:1-1.x86_64", None, 5]))}
    return op


@st.composite
def module_history(draw, allow_breaks=True, max_ops=20):
    uid_pool = draw(st.lists(st.lists(_part, min_size=2, max_size=4), min_size=1, max_size=3))
    lists = draw(st.lists(st.lists(st.sampled_from(["a-0:1-1.x86_64", "b-0:1-1.noarch", "a-debuginfo-0:1-1.x86_64", "c-1:2-3.x86_64", "zlib-0:1.2-3.x86_64",
                                                    "d-0:1-1.i686", "e-2:1-1.noarch", "f-0:10-1.x86_64"]),
                                   max_size=6), min_size=1, max_size=3))
    ops = draw(st.lists(module_op(uid_pool, list(range(len(lists))), allow_breaks), min_size=1, max_size=max_ops))
    return {"lists": lists, "ops": ops}


def module_uid_text(op):
    if op["uid_parts"] is None:
        return 12345
    return op.get("uid_prefix", "") + ":".join(op["uid_parts"])


def module_model_apply(model, op, lists):
    if not op["variant"]:
        return False
    if op["arch"] not in gen.RPM_ARCHES:
        return False
    if op["category"] not in CATEGORIES:
        return False
    parts = op["uid_parts"]
    if parts is None or not (2 <= len(parts) <= 4) or any(not p or ":" in p for p in parts):
        return False
    if not isinstance(op["path"], str) or op["path"].startswith("/") or not op["path"] or not op["koji_tag"]:
        return False
    if "other" in op["rpms"]:
        return False
    name, stream = parts[0], parts[1]
    version = parts[2] if len(parts) > 2 else ""
    context = parts[3] if len(parts) > 3 else ""
    uid = ":".join(parts)
    entry = model.setdefault(op["variant"], {}).setdefault(op["arch"], {}).setdefault(uid, {})
    entry["metadata"] = {"uid": uid, "name": name, "stream": stream, "version": version, "context": context, "koji_tag": op["koji_tag"]}
    entry.setdefault("modulemd_path", {})[op["category"]] = op["path"]
    entry.setdefault("rpms", []).extend(lists[op["rpms"]["list"]])
    return True


class ModuleCaller(object):
    """keeps ONE list object per list id, so that the same caller-owned list is passed to several add calls"""
    def __init__(self, lists):
        self.originals = copy.deepcopy(lists)
        self.lists = copy.deepcopy(lists)

    def call(self, modules, op):
        if "other" in op["rpms"]:
            arg = op["rpms"]["other"]
        else:
            arg = self.lists[op["rpms"]["list"]]
            if op["rpms"]["as_tuple"]:
                arg = tuple(arg)
        return modules.add(op["variant"], op["arch"], module_uid_text(op), op["koji_tag"], op["path"], op["category"], arg)

    def untouched(self):
        return self.lists == self.originals


# ---------------------------------------------------------------------------------------------------------------
# extra files

@st.composite
def extra_op(draw, allow_breaks=True):
    op = {"variant": draw(st.sampled_from(VARIANTS)), "arch": draw(st.sampled_from(ARCHES)),
          "path": draw(st.one_of(gen.rel_path, st.sampled_from(["Server/x86_64/os/GPL", "Server/x86_64/os/EULA", "Server/x86_64/osx/GPL", "GPL"]))),
          "size": draw(st.one_of(st.integers(0, 10 ** 6), st.integers(2 ** 32, 2 ** 40))),
          # the mapping is the caller's: type names are stored the way the producer spelled them (two spellings are two entries)
          "checksums": draw(st.dictionaries(st.sampled_from(["md5", "sha1", "sha256", "md5", "sha256", "MD5", "SHA256", "Sha512"]), gen.hexdigest, min_size=0, max_size=3)),
          "break": None}
    if allow_breaks and draw(st.integers(0, 3)) == 0:
        brk = draw(st.sampled_from(["variant", "arch", "empty-path", "abs-path", "checksums-type"]))
        op["break"] = brk
        if brk == "variant":
            op["variant"] = draw(st.sampled_from(["", None]))
        elif brk == "arch":
            op["arch"] = draw(st.sampled_from(["", "X86_64", "foo", "x86-64"]))
        elif brk == "empty-path":
            op["path"] = draw(st.sampled_from(["", "", None, 5, ["GPL"]]))
        elif brk == "abs-path":
            op["path"] = "/" + op["path"]
        elif brk == "checksums-type":
            op["checksums"] = draw(st.sampled_from([None, "md5:abc", ["md5", "abc"], 5]))
    return op


def extra_history(allow_breaks=True, max_ops=15):
    return st.fixed_dictionaries({"ops": st.lists(extra_op(allow_breaks), min_size=1, max_size=max_ops)})


def extra_model_apply(model, op):
    if not op["variant"] or op["arch"] not in gen.RPM_ARCHES or not isinstance(op["path"], str) or not op["path"] or op["path"].startswith("/"):
        return False
    if not isinstance(op["checksums"], dict):
        return False
    model.setdefault(op["variant"], {}).setdefault(op["arch"], []).append(
        {"file": op["path"], "size": op["size"], "checksums": dict(op["checksums"])})
    return True


def extra_call(ef, op):
    checksums = op["checksums"]
    if isinstance(checksums, (dict, list)):
        checksums = copy.deepcopy(checksums)
    return ef.add(op["variant"], op["arch"], op["path"], op["size"], checksums)


def ref_relative_to(path, base):
    """documented: the base path is stripped from all paths -- on a path-component boundary"""
    root = base
    while root.endswith("/"):
        root = root[:-1]
    if path.startswith(root + "/"):
        return path[len(root) + 1:]
    return path


def fill_compose(obj):
    obj.compose.id, obj.compose.type, obj.compose.date, obj.compose.respin = "F-22-20160622.n.3", "nightly", "20160622", 3


# ---------------------------------------------------------------------------------------------------------------
# a manifest is a mapping by variant: `del manifest[variant]` is part of its public face.  Histories that take part say so
# (with_forgets): what was forgotten is gone, and what is added afterwards is filed in the manifest, not in what was dropped.

def with_forgets(history):
    @st.composite
    def build(draw):
        h = draw(history)
        ops = list(h["ops"])
        for f in draw(st.lists(st.integers(0, 400), max_size=2)):
            variant = ops[(f // 7) % len(ops)].get("variant")
            if isinstance(variant, str) and variant:
                ops.insert(1 + f % len(ops), {"forget": True, "variant": variant, "how": ["variant", "arch"][f % 2]})
        return dict(h, ops=ops)
    return build()


def forget(obj, table, model, op):
    """executes a forget operation on the real manifest (`table` = its public mapping) and on the model; True if `op` was one"""
    if not op.get("forget"):
        return False
    v = op["variant"]
    if v in model:
        if op["how"] == "arch" and model[v]:
            arch = sorted(model[v])[0]
            del obj[v][arch]
            del model[v][arch]
        else:
            del obj[v]
            del model[v]
    return True
