"""Child interpreter for C06: python -m pbt.c06_child FORMAT SEED
In a FRESH interpreter the caller first runs validate() on the parts of a valid object in a generated order (a caller's own
validate() is a second path to what dump() checks), then every single corruption of the rule table is applied to a rich
object of that format and dumped.  Prints a JSON list of findings (empty = everything invalid was refused).  Whatever the
library remembers per class or per module about "how to validate" is learnt during those first calls."""
import json
import random
import sys


def main():
    fmt, seed = sys.argv[1], int(sys.argv[2])
    from pbt import runner
    runner.import_productmd()
    from pbt.props import c06
    from pbt.runner import Violation
    rnd = random.Random(seed)
    first = c06.build(fmt, c06.rich(fmt))
    parts = [inst for path, inst in c06.reachable(first) if hasattr(inst, "validate")]
    rnd.shuffle(parts)
    order = []
    for inst in parts[:rnd.randint(1, max(1, len(parts)))]:
        order.append(type(inst).__module__.split(".")[-1] + "." + type(inst).__name__)
        try:
            inst.validate()
        except Exception:  # noqa
            pass
    findings, trials = [], 0
    for case in c06.table_cases():
        if case["format"] != fmt or case.get("validated_first"):
            continue
        trials += 1
        try:
            c06.table_case(case)
        except Violation as v:
            findings.append({"bucket": v.bucket, "message": v.message, "case": case})
            if len(findings) >= 3:
                break
    sys.stdout.write(json.dumps({"order": order, "trials": trials, "findings": findings}))


if __name__ == "__main__":
    main()
