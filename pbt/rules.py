"""Hand-written table of documented field constraints (C06 object level, C07 document level).

Every row cites where the rule is documented; nothing is scraped from the validators.  A row is
    (format, target class, field, bad values, source)
`target class` selects the positions: any instance of that class reachable from the object (any variant in the forest, any
image in any cell, any section object)."""

EDIT_ALPHABET = ["0", "7", "a", "A", ".", "-", "_", " ", ",", ":", "x", "\n"]      # a line break is a character like any other (FX-21)
LABEL_NAMES = ["EA", "DevelPhaseExit", "InternalAlpha", "Alpha", "InternalSnapshot", "Beta", "Snapshot", "RC", "Update", "SecurityFix"]


def _digits(s):
    return bool(s) and all("0" <= ch <= "9" for ch in s)


def ref_label(s):
    """$LABEL_NAME-$major.$minor (composeinfo.LABEL_NAMES; decimal integers)"""
    name, dash, rest = s.partition("-")
    major, dot, minor = rest.partition(".")
    return name in LABEL_NAMES and dash == "-" and dot == "." and _digits(major) and _digits(minor)


def ref_date(s):
    return len(s) == 8 and _digits(s)


def ref_numeric_or_free_version(s):
    if not s:
        return False
    if not ("0" <= s[0] <= "9"):
        return True
    return all(_digits(part) for part in s.split("."))


def ref_variant_id(s):
    return bool(s) and all("a" <= c <= "z" or "A" <= c <= "Z" or "0" <= c <= "9" for c in s)


def ref_md5(s):
    return len(s) == 32 and all("a" <= c <= "z" or "0" <= c <= "9" for c in s)


def ref_header_version(s):
    a, dot, b = s.partition(".")
    return dot == "." and _digits(a) and _digits(b)


def near_misses(exemplar, valid):
    """every single-character edit (delete / replace / insert over a small ASCII alphabet) of a valid exemplar that the
    hand-written reference predicate rejects: values just outside the documented domain"""
    assert valid(exemplar), exemplar
    out = []
    for i in range(len(exemplar)):
        out.append(exemplar[:i] + exemplar[i + 1:])
        for ch in EDIT_ALPHABET:
            out.append(exemplar[:i] + ch + exemplar[i + 1:])
    for i in range(len(exemplar) + 1):
        for ch in EDIT_ALPHABET:
            out.append(exemplar[:i] + ch + exemplar[i:])
    seen, res = set(), []
    for cand in out:
        if cand not in seen and not valid(cand):
            seen.add(cand)
            res.append(cand)
    return res


BAD_LABELS = near_misses("Beta-1.2", ref_label) + near_misses("RC-10.0", ref_label)
BAD_DATES = near_misses("20160622", ref_date)
BAD_NUMERIC_VERSIONS = near_misses("7.2", ref_numeric_or_free_version) + near_misses("10", ref_numeric_or_free_version)
BAD_VARIANT_IDS = near_misses("Server", ref_variant_id)
BAD_MD5 = near_misses("0123456789abcdef0123456789abcdef", ref_md5)[::7]
BAD_HEADER_VERSIONS = near_misses("1.2", ref_header_version)

NOT_A_STRING = [None, 5]
NOT_AN_INT = [None, "1", 1.5]
NOT_A_BOOL = [None, "yes", 1]

COMPOSE_SECTION = [
    ("Compose", "type", ["Production", "", None, "prod", "NIGHTLY"], "composeinfo.COMPOSE_TYPES: supported compose types"),
    ("Compose", "date", ["2015", "201505221", "2015-5-2", "abcdefgh", None, 20150522, ""] + BAD_DATES, "doc: date <str>, validator comment: 8 digits"),
    ("Compose", "id", ["", None, "Foo-1.0", 5], "doc: id <str>; compose id carries the 8-digit date"),
    ("Compose", "respin", NOT_AN_INT, "doc composeinfo-1.1: respin <int>"),
    ("Compose", "label", ["GA", "Beta", "Beta-1", "Beta-1.", "beta-1.0", "RC-1.0.0", "Foo-1.0", 5, "RC_1.0", "RC-100", "RC-20240101"] + BAD_LABELS,
     "composeinfo.LABEL_NAMES: $label_name-$major.$minor"),
]

RULES = {
    "composeinfo": COMPOSE_SECTION + [
        ("Release", "type", ["GA", "bogus", None, "", "Updates", "tech-preview", "updates-test", "beta"], "common.RELEASE_TYPES (known release types); case-folding happens on load only"),
        ("Release", "version", ["1.", "1..2", "1a", "", None, 7, "11.."] + BAD_NUMERIC_VERSIONS, "common.RELEASE_VERSION_RE doc: any string or [0-9] separated with dots"),
        ("Release", "name", NOT_A_STRING, "attribute doc: (str) release name"),
        ("Release", "short", NOT_A_STRING, "attribute doc: (str) release short name"),
        ("Release", "is_layered", NOT_A_BOOL, "attribute doc: (bool=False)"),
        ("Release", "internal", NOT_A_BOOL, "attribute doc: (bool=False)"),
        ("BaseProduct", "type", ["bogus", None, "GA", "tech-preview"], "common.RELEASE_TYPES"),
        ("BaseProduct", "version", ["1.", "1..2", "1a", None], "RELEASE_VERSION_RE"),
        ("BaseProduct", "name", NOT_A_STRING, "attribute doc: (str)"),
        ("Variant", "id", ["a-b", "a b", "", None, "x.y", "S\u00e9rveur", "Server\u0662", "Stra\u00dfe", "\u0421\u0435\u0440\u0432\u0435\u0440", "Server\u00b2", "\uff33erver"] + BAD_VARIANT_IDS, "attribute doc: variant ID; validator comment ^[a-zA-Z0-9]+$ (dash separates UID parts)"),
        ("Variant", "uid", [None, 5], "attribute doc: (str) variant UID"),
        ("Variant", "name", ["", None, 5], "attribute doc: variant name (pretty text), required"),
        ("Variant", "type", ["bogus", None, "Variant", ""], "composeinfo.VARIANT_TYPES"),
        ("Variant", "arches", [set(), []], "attribute doc: set of arches for a variant (non-empty)"),
    ],
    "images": COMPOSE_SECTION + [
        ("Image", "path", ["", None, 5], "doc images-1.1: path <str> relative path to the image"),
        ("Image", "mtime", NOT_AN_INT, "doc: mtime <int>"),
        ("Image", "size", [None, "12", 1.5, 0], "doc: size <int> file size (non-blank)"),
        ("Image", "volume_id", ["", 5], "doc: volume_id <str|null>; blank is not null"),
        ("Image", "type", ["floppy", None, "DVD", ""], "images.SUPPORTED_IMAGE_TYPES"),
        ("Image", "format", ["ISO", "zip", None, ""], "images.SUPPORTED_IMAGE_FORMATS"),
        ("Image", "arch", ["", None, 5], "doc: arch <str> image arch"),
        ("Image", "disc_number", NOT_AN_INT, "doc: disc_number <int>"),
        ("Image", "disc_count", NOT_AN_INT, "doc: disc_count <int>"),
        ("Image", "checksums", [{}, None, [("md5", "x")]], "doc: checksums {type: value}; at least one"),
        ("Image", "implant_md5", ["abc", "A" * 32, "0123456789abcdef0123456789abcde-", "a" * 33, "a" * 31, 5, ""] + BAD_MD5, "doc: implant_md5 <str|null> md5 checksum (32 lower-case hex)"),
        ("Image", "bootable", NOT_A_BOOL, "doc: bootable <bool>"),
        ("Image", "subvariant", NOT_A_STRING, "doc images-1.1: subvariant <str>"),
        ("Image", "unified", NOT_A_BOOL, "attribute doc: (bool=False)"),
    ],
    "rpms": list(COMPOSE_SECTION),
    "modules": list(COMPOSE_SECTION),
    "extra_files": list(COMPOSE_SECTION),
    "treeinfo": [
        ("Release", "name", NOT_A_STRING, "doc treeinfo-1.1: name <str>"),
        ("Release", "short", NOT_A_STRING, "doc: short <str>"),
        ("Release", "version", ["1.", "1..2", "1a", None, 7, "\u0667.x", "\uff17-beta", "7.\u0663x"] + BAD_NUMERIC_VERSIONS, "doc: version <str>; numeric versions are dot-separated integers (a version starting with any decimal digit is numeric for a tree)"),
        ("Release", "is_layered", NOT_A_BOOL, "doc: is_layered <bool=False>"),
        ("BaseProduct", "version", ["1.", "1a", None, "\u0667.x"], "doc: base product version"),
        ("BaseProduct", "name", NOT_A_STRING, "doc: name <str>"),
        ("Tree", "arch", ["", None, 5], "doc: arch <str> tree architecture"),
        ("Tree", "build_timestamp", [None, "1", 0, 0.0], "doc: build_timestamp <int|float>"),
        ("Variant", "id", ["a-b", 5, None], "treeinfo variant id: no dash (dash separates UID parts)"),
        ("Variant", "type", ["bogus", None, "layered-product", "Variant"], "treeinfo.VARIANT_TYPES"),
        ("Variant", "name", [None, 0, False, [], 7], "doc treeinfo-1.1: name <str> (an option of the INI file: text or nothing)"),
        ("VariantPaths", "packages", [0, False, [], 7], "doc: packages <str> relative path"),
        ("VariantPaths", "repository", [0, False, []], "doc: repository <str> relative path"),
        ("Stage2", "mainimage", ["/abs/stage2.img", 5], "doc: mainimage relative path to Anaconda stage2 image"),
        ("Stage2", "instimage", ["/abs/inst.img", 5], "doc: instimage relative path to Anaconda instimage (obsolete)"),
        ("Media", "discnum", ["1", 1.5], "doc: discnum <int>"),
        ("Media", "totaldiscs", ["2", 1.5], "doc: totaldiscs <int>"),
    ],
    "discinfo": [
        ("DiscInfo", "timestamp", [0, 0.0, None, 5, "1.0"], "attribute doc: timestamp in float format, required"),
        ("DiscInfo", "description", ["", None, 5], "attribute doc: release description, required"),
        ("DiscInfo", "arch", ["", None, 5], "attribute doc: media architecture, required"),
        ("DiscInfo", "disc_numbers", [[], None, "ALL", ()], "attribute doc: list with disc numbers or ['ALL']"),
    ],
}

# corruptions that are not a plain attribute replacement (documented cross-field / structural rules)
SPECIALS = {
    "composeinfo": ["final-with-label", "child-arch-outside-parent", "misaligned-uid", "layered-variant-release-type", "refused-add-left-behind"],
    "images": ["additional-variants-on-non-unified", "additional-variants-not-a-list"],
    "treeinfo": ["misaligned-uid", "absolute-image-path", "unreferenced-platform", "absolute-checksum-path", "partial-media", "refused-add-left-behind"],
}
