"""composeinfo: case descriptions, builder (public API only), snapshots, reference document model."""
import copy
import random

from hypothesis import strategies as st

from pbt import gen

PATH_CATEGORIES = [
    "os_tree", "packages", "repository", "isos", "images", "jigdos",
    "source_tree", "source_packages", "source_repository", "source_isos", "source_jigdos",
    "debug_tree", "debug_packages", "debug_repository",
]

ID_POOL = ["Server", "Client", "Workstation", "optional", "HA", "RS", "LB", "Tools", "A", "B", "a", "A1", "SAP", "Z9"]
variant_id = st.one_of(st.sampled_from(ID_POOL), st.from_regex(r"[A-Za-z0-9]{1,6}", fullmatch=True))


def ref_compose_id(release, base_product, compose):
    """reference model of the documented compose id: short-version[-type][-bpshort-bpversion[-bptype]]-date[suffix].respin"""
    def tsuffix(t):
        return "" if t == "ga" else "-" + t
    out = "%s-%s%s" % (release["short"], release["version"], tsuffix(release["type"]))
    if base_product is not None:
        out += "-%s-%s%s" % (base_product["short"], base_product["version"], tsuffix(base_product["type"]))
    out += "-%s%s.%d" % (compose["date"], gen.COMPOSE_SUFFIX[compose["type"]], compose["respin"])
    return out


@st.composite
def paths_desc(draw, arches):
    cats = draw(gen.subsets(PATH_CATEGORIES, max_size=5)) if draw(st.integers(0, 3)) else draw(gen.subsets(PATH_CATEGORIES))
    out = {}
    # keys outside the variant's own arch set: other arches, and the pseudo-arch "src" (which queries treat as matching every
    # variant - but a path table keyed by it is still a table for an architecture the variant does not have)
    candidates = sorted(set(arches) | set(draw(gen.subsets(gen.ARCH_POOL + ["src", "src", "noarch"], max_size=2))))
    for cat in cats:
        sel = draw(gen.subsets(candidates, min_size=1))
        out[cat] = {a: draw(st.one_of(gen.rel_path, gen.rel_path, gen.rel_path, st.just(""))) for a in sel}
    return out


@st.composite
def variant_node(draw, parent_uid, parent_arches, vid, depth, max_depth):
    vtype = draw(st.sampled_from(gen.CI_VARIANT_TYPES))
    if parent_arches is None:
        arches = draw(gen.subsets(gen.ARCH_POOL, min_size=1, max_size=4))
    else:
        arches = draw(gen.subsets(sorted(parent_arches), min_size=1))
    node = {"id": vid, "uid": vid if parent_uid is None else "%s-%s" % (parent_uid, vid),
            "name": draw(gen.name_text), "type": vtype, "arches": sorted(arches),
            "paths": draw(paths_desc(arches)), "children": []}
    if vtype == "layered-product":
        node["release"] = draw(gen.release_desc())
    if depth < max_depth:
        nkids = draw(st.sampled_from([0, 0, 1, 1, 2, 3]))
        kid_ids = draw(st.lists(variant_id, min_size=nkids, max_size=nkids, unique=True))
        for kid in kid_ids:
            node["children"].append(draw(variant_node(node["uid"], arches, kid, depth + 1, max_depth)))
    return node


def all_nodes(nodes):
    for n in nodes:
        yield n
        for m in all_nodes(n["children"]):
            yield m


@st.composite
def forest_desc(draw, max_top=3, max_depth=3, dashed=True):
    ntop = draw(st.integers(0 if max_top else 0, max_top)) if draw(st.integers(0, 9)) == 0 else draw(st.integers(1, max_top))
    ids = draw(st.lists(variant_id, min_size=ntop, max_size=ntop, unique=True))
    tops = [draw(variant_node(None, None, vid, 1, max_depth)) for vid in ids]
    if dashed and draw(st.booleans()):
        # documented special case: childless top-level variant whose UID has dashes ("Server-Tools", id "ServerTools")
        parts = draw(st.lists(st.sampled_from(["Server", "Tools", "optional", "Workstation", "A", "b2"]), min_size=2, max_size=3))
        uid = "-".join(parts)
        vid = "".join(parts)
        # usually childless (the documented case), sometimes with children of its own
        node = draw(variant_node(uid, None, vid, 1, max_depth if draw(st.integers(0, 2)) == 0 else 1))
        node["uid"] = uid

        def fix(children, parent_uid):
            for c in children:
                c["uid"] = "%s-%s" % (parent_uid, c["id"])
                fix(c["children"], c["uid"])
        fix(node["children"], uid)
        used_uids = set(n["uid"] for n in all_nodes(tops))
        if not (used_uids & set(n["uid"] for n in all_nodes([node]))) and vid not in set(t["id"] for t in tops):
            tops.append(node)
    return tops


@st.composite
def compose_desc(draw, max_top=3, max_depth=3):
    release = draw(gen.release_desc())
    layered = draw(st.booleans())
    bp = None
    if layered:
        bp = draw(gen.release_desc(with_internal=False))
    comp = draw(gen.compose_section_desc(id_prefix=""))
    how = draw(st.integers(0, 5))
    if how >= 2:
        comp["id"] = ref_compose_id(release, bp, comp)
    elif how == 1:
        comp["id"] = draw(st.sampled_from(["x", "Foo-1.0", "a b", "é"])) + comp["id"]
    else:
        comp["id"] = "%s-%s-%s%s" % (release["short"], release["version"], comp["date"], draw(st.sampled_from(
            [".hotfix.2", ".production.0", ".x", "-Server", ".1.2.3", " (final)", ".N.1", ".nightlyx.1"])))
    return {"release": release, "layered": layered, "base_product": bp, "compose": comp,
            "variants": draw(forest_desc(max_top=max_top, max_depth=max_depth))}


# ---------------------------------------------------------------------------------------------------------------
# builder: description -> library objects, public API only

def _shuffled(items, rnd):
    items = list(items)
    if rnd is not None:
        rnd.shuffle(items)
    return items


def fill_release(obj, d, layered=None):
    obj.name = d["name"]
    obj.short = d["short"]
    obj.version = d["version"]
    if "type" in d:
        obj.type = d["type"]
    if "internal" in d:
        obj.internal = d["internal"]
    if layered is not None:
        obj.is_layered = layered


def build_variant(ci, node, rnd=None):
    from productmd.composeinfo import Variant
    v = Variant(ci)
    v.id = node["id"]
    v.uid = node["uid"]
    v.name = node["name"]
    v.type = node["type"]
    order = _shuffled(node["arches"], rnd)
    if rnd and len(order) >= 2 and rnd.random() < 0.4:
        # the caller's own set object, completed after it was handed over: the variant holds the set it was given
        mine = set(order[:1])
        v.arches = mine
        mine.update(order[1:])
    else:
        v.arches = set(order)
    if "release" in node:
        fill_release(v.release, node["release"])
    for cat in _shuffled(sorted(node["paths"]), rnd):
        table = getattr(v.paths, cat)
        for arch in _shuffled(sorted(node["paths"][cat]), rnd):
            table[arch] = node["paths"][cat][arch]
    return v


def attach(ci, container, nodes, rnd=None, children_first=False):
    """add `nodes` to `container` (Variants or Variant); returns list of built variants"""
    for node in _shuffled(nodes, rnd):
        v = build_variant(ci, node, rnd)
        if children_first and node["children"]:
            # children can be attached to a parent before the parent itself is attached
            attach(ci, v, node["children"], rnd, children_first)
            container.add(v)
        else:
            container.add(v)
            attach(ci, v, node["children"], rnd, children_first)


def build_ci(desc, plan=0):
    """plan: 0 = description order; otherwise seed of the construction-order permutation"""
    from productmd.composeinfo import ComposeInfo
    rnd = random.Random(plan) if plan else None
    ci = ComposeInfo()
    steps = ["release", "compose", "variants"]
    for step in _shuffled(steps, rnd):
        if step == "release":
            fill_release(ci.release, desc["release"], layered=desc["layered"])
            if desc["layered"]:
                fill_release(ci.base_product, desc["base_product"])
        elif step == "compose":
            c = desc["compose"]
            ci.compose.id = c["id"]
            ci.compose.type = c["type"]
            ci.compose.date = c["date"]
            ci.compose.respin = c["respin"]
            ci.compose.label = c["label"]
            ci.compose.final = c["final"]
        else:
            attach(ci, ci.variants, desc["variants"], rnd, children_first=bool(plan and plan % 2))
    return ci


def as_loaded(desc):
    """the description of what an object READ from the written file holds: the documented normalisations applied (no path
    entries for architectures outside the variant's arch set, no blank paths)"""
    d = copy.deepcopy(desc)
    for n in all_nodes(d["variants"]):
        n["paths"] = dict((cat, kept) for cat, kept in ((cat, dict((a, p) for a, p in table.items() if p and a in n["arches"])) for cat, table in n["paths"].items()) if kept)
    return d


def modify_ci(desc, ci):
    """a valid change of an EXISTING object through its public attributes; returns the description of what it holds afterwards"""
    d = copy.deepcopy(desc)
    d["compose"]["respin"] += 1
    d["release"]["name"] = d["release"]["name"] + "x"
    ci.compose.respin, ci.release.name = d["compose"]["respin"], d["release"]["name"]

    def rename(nodes, container, top):
        for n in nodes:
            n["name"] = n["name"] + "!"
            v = container.variants[n["uid"] if n["uid"] in container.variants else n["id"]]
            v.name = n["name"]
            # a whole path table replaced by assignment (the style the VariantPaths docstring shows) ...
            n["paths"]["os_tree"] = dict((a, "changed/%s/os" % a) for a in n["arches"])
            v.paths.os_tree = dict(n["paths"]["os_tree"])
            # ... and a top-level variant gains an architecture it so far only had (unwritten) path entries for
            foreign = sorted(set(a for t in n["paths"].values() for a in t if a not in n["arches"] and a in gen.ARCH_POOL))
            if top and foreign:
                n["arches"] = sorted(n["arches"] + [foreign[0]])
                v.arches.add(foreign[0])
            rename(n["children"], v, False)
    rename(d["variants"], ci.variants, True)
    return d


# ---------------------------------------------------------------------------------------------------------------
# snapshots

def expected_release(d, layered, internal_default=False):
    return {"name": d["name"], "short": d["short"], "version": d["version"], "type": d.get("type", "ga").lower(),
            "is_layered": layered, "internal": d.get("internal", internal_default)}


def expected_paths(node):
    out = {}
    for cat, table in node["paths"].items():
        kept = {a: p for a, p in table.items() if p and a in node["arches"]}
        if kept:
            out[cat] = kept
    return out


def expected_forest(nodes, parent_uid=None):
    out = {}
    for n in nodes:
        snap = {"id": n["id"], "uid": n["uid"], "name": n["name"], "type": n["type"], "arches": sorted(n["arches"]),
                "paths": expected_paths(n), "parent": parent_uid, "children": expected_forest(n["children"], n["uid"])}
        if n["type"] == "layered-product":
            snap["release"] = expected_release(n["release"], True)
        out[n["id"]] = snap
    return out


def expected_snapshot(desc):
    c = desc["compose"]
    snap = {"release": expected_release(desc["release"], desc["layered"]),
            "compose": {"id": c["id"], "type": c["type"], "date": c["date"], "respin": c["respin"],
                        "label": c["label"], "final": bool(c["final"]) if c["label"] else False},
            "variants": expected_forest(desc["variants"])}
    if desc["layered"]:
        bp = desc["base_product"]
        snap["base_product"] = {"name": bp["name"], "short": bp["short"], "version": bp["version"], "type": bp.get("type", "ga")}
    return snap


def snap_release(r):
    return {"name": r.name, "short": r.short, "version": r.version, "type": r.type, "is_layered": r.is_layered,
            "internal": r.internal}


def snap_forest(container):
    out = {}
    for key, v in container.variants.items():
        paths = {}
        for cat in PATH_CATEGORIES:
            table = getattr(v.paths, cat)
            if table:
                paths[cat] = dict(table)
        snap = {"id": v.id, "uid": v.uid, "name": v.name, "type": v.type, "arches": sorted(v.arches), "paths": paths,
                "parent": v.parent.uid if v.parent is not None else None, "children": snap_forest(v)}
        if v.type == "layered-product":
            snap["release"] = snap_release(v.release)
        out[key] = snap
    return out


def snapshot(ci):
    c = ci.compose
    snap = {"release": snap_release(ci.release),
            "compose": {"id": c.id, "type": c.type, "date": c.date, "respin": c.respin, "label": c.label, "final": c.final},
            "variants": snap_forest(ci.variants)}
    if ci.release.is_layered:
        b = ci.base_product
        snap["base_product"] = {"name": b.name, "short": b.short, "version": b.version, "type": b.type}
    return snap


# ---------------------------------------------------------------------------------------------------------------
# reference document model (doc/composeinfo-1.1.rst + "variants" child-id lists), independent of the library writer

def expected_doc(desc, version="1.2"):
    c = desc["compose"]
    comp = {"id": c["id"], "type": c["type"], "date": c["date"], "respin": c["respin"]}
    if c["label"]:
        comp["label"] = c["label"]
        comp["final"] = bool(c["final"])
    r = desc["release"]
    rel = {"name": r["name"], "short": r["short"], "version": r["version"], "type": r["type"], "internal": bool(r["internal"])}
    if desc["layered"]:
        rel["is_layered"] = True
    payload = {"compose": comp, "release": rel, "variants": {}}
    if desc["layered"]:
        b = desc["base_product"]
        payload["base_product"] = {"name": b["name"], "short": b["short"], "version": b["version"], "type": b["type"]}
    for n in all_nodes(desc["variants"]):
        v = {"id": n["id"], "uid": n["uid"], "name": n["name"], "type": n["type"], "arches": sorted(n["arches"]),
             "paths": expected_paths(n)}
        if n["children"]:
            v["variants"] = sorted(k["id"] for k in n["children"])
        if n["type"] == "layered-product":
            nr = n["release"]
            v["release"] = {"name": nr["name"], "short": nr["short"], "version": nr["version"], "type": nr["type"],
                            "internal": bool(nr["internal"]), "is_layered": True}
        payload["variants"][n["uid"]] = v
    return {"header": {"type": "productmd.composeinfo", "version": version}, "payload": payload}


def is_nontrivial(desc):
    nodes = list(all_nodes(desc["variants"]))
    return bool(any(n["children"] for n in nodes) or any(n["paths"] for n in nodes) or desc["compose"]["label"]
                or desc["layered"] or desc["release"]["type"] != "ga")


def labels(desc):
    nodes = list(all_nodes(desc["variants"]))
    depth = 0
    def d(ns, k):
        nonlocal depth
        for n in ns:
            depth = max(depth, k)
            d(n["children"], k + 1)
    d(desc["variants"], 1)
    out = ["depth%d" % depth]
    if desc["layered"]:
        out.append("layered")
    if desc["compose"]["label"]:
        out.append("label")
    if any(n["type"] == "layered-product" for n in nodes):
        out.append("layered-product-variant")
    dashed = [n for n in desc["variants"] if n["uid"] != n["id"]]
    if dashed:
        out.append("dashed-top-uid")
    if any(n["children"] for n in dashed):
        out.append("dashed-top-uid-with-children")
    if any(n["paths"] for n in nodes):
        out.append("paths")
    return out
