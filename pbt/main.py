import argparse
import importlib
import os
import sys
import traceback

from pbt import runner


def main(argv=None):
    ap = argparse.ArgumentParser(prog="check")
    ap.add_argument("property")
    ap.add_argument("--tier", default=os.environ.get("VERIF_TIER") or "quick", choices=["quick", "thorough"])
    ap.add_argument("--replay")
    ap.add_argument("--only", action="append")
    ap.add_argument("--jobs", type=int)
    args = ap.parse_args(argv)
    try:
        seed = int(os.environ.get("VERIF_SEED", "1") or "1")
    except ValueError:
        seed = 1
    try:
        runner.import_productmd()
        mod = importlib.import_module("pbt.props.%s" % args.property.lower())
        if args.replay:
            return runner.replay(mod, args.replay)
        return runner.run_property(mod, args.tier, seed, only=args.only, jobs=args.jobs)
    except runner.HarnessError as exc:
        sys.stderr.write("HARNESS ERROR: %s\n" % exc)
        return 2
    except Exception:  # noqa
        sys.stderr.write("HARNESS ERROR:\n%s\n" % traceback.format_exc())
        return 2


if __name__ == "__main__":
    sys.exit(main())
