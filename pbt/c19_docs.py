"""Base documents for C19's "input used as a pattern" scan, and leaf-wise substitution.  A document is either
{"kind": "json", "cls": <loader name>, "doc": <parsed JSON>} or {"kind": "ini", "ini": {section: {option: value}}}."""
import copy
import json


def base_docs():
    """one valid document per reader family (current and legacy); built with the library itself"""
    import productmd.composeinfo as ci
    import productmd.images as im
    import productmd.treeinfo as ti
    docs = {}
    c = ci.ComposeInfo()
    c.release.name, c.release.short, c.release.version, c.release.type = "Fedora", "F", "22", "ga"
    c.compose.id, c.compose.type, c.compose.date, c.compose.respin, c.compose.label = "F-22-20160622.n.3", "nightly", "20160622", 3, "Beta-1.2"
    v = ci.Variant(c)
    v.id, v.uid, v.name, v.type, v.arches = "Server", "Server", "Server", "variant", set(["x86_64"])
    v.paths.os_tree["x86_64"] = "Server/x86_64/os"
    c.variants.add(v)
    k = ci.Variant(c)
    k.id, k.uid, k.name, k.type, k.arches = "HA", "Server-HA", "HA", "addon", set(["x86_64"])
    v.add(k)
    cdoc = json.loads(c.dumps())
    docs["composeinfo-1.2"] = {"kind": "json", "cls": "composeinfo", "doc": cdoc}
    old = copy.deepcopy(cdoc)
    old["header"] = {"version": "0.2"}
    old["payload"]["product"] = old["payload"].pop("release")
    for var in old["payload"]["variants"].values():
        var.pop("variants", None)
    docs["composeinfo-0.2"] = {"kind": "json", "cls": "composeinfo", "doc": old}
    images = im.Images()
    images.header.version = "1.2"
    images.compose.id, images.compose.type, images.compose.date, images.compose.respin = "F-22-20160622.n.3", "nightly", "20160622", 3
    img = im.Image(images)
    img.path, img.mtime, img.size, img.volume_id, img.type, img.format, img.arch = "Server/x86_64/iso/boot.iso", 1, 1, "vol", "dvd", "iso", "x86_64"
    img.disc_number, img.disc_count, img.checksums, img.implant_md5, img.bootable, img.subvariant = 1, 1, {"md5": "x"}, "a" * 32, True, "Server"
    images.add("Server", "x86_64", img)
    docs["images-1.2"] = {"kind": "json", "cls": "images", "doc": json.loads(images.dumps())}
    docs["rpms-0.3"] = {"kind": "json", "cls": "rpms", "doc": {
        "header": {"version": "0.3"}, "payload": {"compose": {"id": "F-22-20160622.n.3", "type": "nightly", "date": "20160622", "respin": 3},
                                                 "manifest": {"Server": {"x86_64": {"glibc-0:2.18-11.fc20.src": {"glibc-0:2.18-11.fc20.x86_64": {"path": "p", "sigkey": None, "type": "package"}}},
                                                                         "src": {"glibc-0:2.18-11.fc20.src": {"path": "s", "sigkey": None, "type": "source"}}}}}}}
    docs["modules-1.2"] = {"kind": "json", "cls": "modules", "doc": {
        "header": {"type": "productmd.modules", "version": "1.2"}, "payload": {"compose": {"id": "F-22-20160622.n.3", "type": "nightly", "date": "20160622", "respin": 3},
                                                                                "modules": {"Server": {"x86_64": {"m:1": {"metadata": {"uid": "m:1"}, "modulemd_path": {"binary": "p"}, "rpms": []}}}}}}}
    t = ti.TreeInfo()
    t.release.name, t.release.short, t.release.version, t.release.is_layered = "Foo", "F", "20", True
    t.base_product.name, t.base_product.short, t.base_product.version = "B", "b", "1.2"
    t.tree.arch, t.tree.build_timestamp = "x86_64", 1
    t.tree.platforms.update(["x86_64", "xen"])
    tv = ti.Variant(t)
    tv.id, tv.uid, tv.name, tv.type = "Server", "Server", "Server", "variant"
    tv.paths.packages, tv.paths.repository = "Packages", "."
    t.variants.add(tv)
    ta = ti.Variant(t)
    ta.id, ta.uid, ta.name, ta.type = "HA", "Server-HA", "HA", "addon"
    tv.add(ta)
    t.images.images["x86_64"] = {"kernel": "vmlinuz"}
    t.images.images["xen"] = {"kernel": "vmlinuz-xen"}
    t.stage2.mainimage = "LiveOS/squashfs.img"
    t.media.discnum, t.media.totaldiscs = 1, 1
    t.checksums.add("vmlinuz", "md5", "x")
    from pbt import ti as tim
    ini = tim.read_ini(t.dumps())
    docs["treeinfo-1.2"] = {"kind": "ini", "ini": ini}
    legacy = {s: dict(o) for s, o in ini.items() if s in ("general", "stage2", "checksums") or s.startswith("images-")}
    legacy["images-xen-x86_64"] = legacy.pop("images-xen")          # the documented legacy spelling platform-arch
    docs["treeinfo-0.0"] = {"kind": "ini", "ini": legacy}
    old3 = copy.deepcopy(ini)
    old3["header"] = {"version": "0.3"}
    old3["product"] = old3.pop("release")
    docs["treeinfo-0.3"] = {"kind": "ini", "ini": old3}
    return docs


def leaves(doc):
    """ids of every text position a document author controls"""
    out = []
    if doc["kind"] == "json":
        def walk(node, path):
            if isinstance(node, dict):
                for key in sorted(node):
                    if len(path) >= 2:
                        out.append(("key",) + path + (key,))
                    walk(node[key], path + (key,))
            elif isinstance(node, list):
                for i, v in enumerate(node):
                    walk(v, path + (i,))
            elif isinstance(node, str):
                out.append(("value",) + path)
        walk(doc["doc"], ())
    else:
        for sec in sorted(doc["ini"]):
            if "-" in sec:
                out.append(("section", sec))
            for opt in sorted(doc["ini"][sec]):
                out.append(("value", sec, opt))
    return out


def substitute(doc, leaf, fn):
    """copy of the document with the text at `leaf` replaced by fn(old text); returns the text to load and the loader name"""
    doc = copy.deepcopy(doc)
    if doc["kind"] == "json":
        node = doc["doc"]
        path = leaf[1:]
        for k in path[:-1]:
            node = node[k]
        if leaf[0] == "key":
            node[fn(path[-1])] = node.pop(path[-1])
        else:
            node[path[-1]] = fn(node[path[-1]])
        return json.dumps(doc["doc"]), doc["cls"]
    ini = doc["ini"]
    if leaf[0] == "section":
        head, tail = leaf[1].split("-", 1)
        ini["%s-%s" % (head, fn(tail))] = ini.pop(leaf[1])
    else:
        ini[leaf[1]][leaf[2]] = fn(ini[leaf[1]][leaf[2]])
    lines = []
    for sec in sorted(ini):
        lines.append("[%s]" % sec)
        for opt in sorted(ini[sec]):
            lines.append("%s = %s" % (opt, str(ini[sec][opt]).replace("\n", " ")))
        lines.append("")
    return "\n".join(lines), "treeinfo"


def load(text, cls):
    import productmd.composeinfo
    import productmd.images
    import productmd.rpms
    import productmd.modules
    import productmd.treeinfo
    klass = {"composeinfo": productmd.composeinfo.ComposeInfo, "images": productmd.images.Images, "rpms": productmd.rpms.Rpms,
             "modules": productmd.modules.Modules, "treeinfo": productmd.treeinfo.TreeInfo}[cls]
    klass().loads(text)
