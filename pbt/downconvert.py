"""Older-format documents written the way an older library would have written them (doc/*-1.0.rst, *-1.1.rst and the
documented legacy mappings), together with the facts a faithful upgrade must preserve.  Used by C05, C10 and C15."""
from hypothesis import strategies as st

from pbt import gen, im as imm, manifests as mf

# ---------------------------------------------------------------------------------------------------------------
# images 1.0 / 1.1

IMG_VARIANTS = ["Server", "Client", "Workstation", "Server-optional"]


@st.composite
def legacy_images_desc(draw, versions=("1.0", "1.1")):
    version = draw(st.sampled_from(list(versions)))
    nvar = draw(st.integers(1, 3))
    variants = draw(st.lists(st.sampled_from(IMG_VARIANTS), min_size=nvar, max_size=nvar, unique=True))
    entries = []
    serial = [0]

    def record(image_arch):
        rec = draw(imm.image_record())
        rec["unified"] = False
        rec["additional_variants"] = []
        serial[0] += 1
        rec["disc_number"] = serial[0]          # distinct identities: collisions belong to C09 / KF-C05
        rec["path"] = "%s.%d" % (rec["path"], serial[0])
        rec["arch"] = image_arch
        if version == "1.0":
            rec["subvariant"] = ""
        return rec

    layout = {}
    for variant in variants:
        arches = draw(st.lists(st.one_of(gen.arch_pool, st.sampled_from(gen.BINARY_ARCHES)), min_size=1, max_size=3, unique=True))
        layout[variant] = {"binary": arches, "has_src": draw(st.booleans())}
        for arch in arches:
            n = draw(st.sampled_from([0, 1, 1, 2]))
            for _ in range(n):
                entries.append({"variant": variant, "arch": arch, "rec": record(arch)})
        if layout[variant]["has_src"]:
            for _ in range(draw(st.integers(1, 2))):
                entries.append({"variant": variant, "arch": "src", "rec": record("src")})
    return {"version": version, "compose": draw(gen.compose_section_desc()), "layout": layout, "entries": entries}


def legacy_images_doc(desc):
    header = {"version": desc["version"]}
    if desc["version"] != "1.0":
        header["type"] = "productmd.images"
    images = {}
    for variant, lay in desc["layout"].items():
        images[variant] = {a: [] for a in lay["binary"]}
        if lay["has_src"]:
            images[variant]["src"] = []
    for e in desc["entries"]:
        rec = imm.rec_doc(e["rec"])
        if desc["version"] == "1.0":
            del rec["subvariant"]
        images[e["variant"]][e["arch"]].append(rec)
    return {"header": header, "payload": {"compose": imm.compose_doc(desc["compose"]), "images": images}}


def legacy_images_expected_cells(desc):
    cells = {}
    for e in desc["entries"]:
        targets = desc["layout"][e["variant"]]["binary"] if e["arch"] == "src" else [e["arch"]]
        for arch in targets:
            cells.setdefault((e["variant"], arch), []).append(imm.rec_tuple(e["rec"]))
    return {k: sorted(v) for k, v in cells.items()}


# ---------------------------------------------------------------------------------------------------------------
# rpms 0.3 ("manifest" table, type package|debug|source, source RPMs under a "src" arch)

def _spell(nevra, style):
    """legal alternative spellings of the same package, used consistently inside one document"""
    text = mf.nevra_canonical(nevra)
    if style == "rpm":
        return text + ".rpm"
    if style == "padded":
        name_epoch, rest = text.split(":", 1)
        head, epoch = name_epoch.rsplit("-", 1)
        return "%s-0%s:%s" % (head, epoch, rest)
    return text


@st.composite
def legacy_rpms_desc(draw, versions=("0.3",)):
    fams = draw(st.lists(mf.package_family(), min_size=1, max_size=3))
    # distinct source packages
    seen = set()
    fams = [f for f in fams if not (mf.nevra_canonical(dict(f["base"], arch="src")) in seen or seen.add(mf.nevra_canonical(dict(f["base"], arch="src"))))]
    nvar = draw(st.integers(1, 3))
    variants = draw(st.lists(st.sampled_from(mf.VARIANTS), min_size=nvar, max_size=nvar, unique=True))
    style = draw(st.sampled_from(["canonical", "canonical", "canonical", "rpm", "padded"]))
    table = {}
    for variant in variants:
        arches = draw(st.lists(st.sampled_from(mf.ARCHES), min_size=1, max_size=3, unique=True))
        vt = {"binary": {}, "src": {}, "has_src": draw(st.sampled_from([True, True, False]))}
        for arch in arches:
            members = []
            for fi in draw(st.lists(st.integers(0, len(fams) - 1), min_size=1, max_size=len(fams), unique=True)):
                fam = fams[fi]
                for sub in draw(st.lists(st.sampled_from(fam["subs"]), min_size=1, max_size=len(fam["subs"]), unique=True)):
                    members.append({"fam": fi, "sub": sub, "rpm_arch": draw(st.sampled_from([arch, "noarch"])),
                                    "type": draw(st.sampled_from(["package", "package", "debug"])),
                                    "path": draw(gen.rel_path), "sigkey": draw(st.one_of(st.none(), st.sampled_from(["246110C1", "fd431d51", "AbCd"])))})
            vt["binary"][arch] = members
        if vt["has_src"]:
            for fi in draw(st.lists(st.integers(0, len(fams) - 1), max_size=len(fams), unique=True)):
                vt["src"][str(fi)] = {"path": draw(gen.rel_path), "sigkey": draw(st.one_of(st.none(), st.sampled_from(["246110C1", "fd431d51"])))}
        table[variant] = vt
    return {"version": draw(st.sampled_from(list(versions))), "families": fams, "style": style, "table": table,
            "compose": draw(gen.compose_section_desc())}


def _srpm(fam):
    return dict(fam["base"], arch=fam["src_arch"])


def _member(fam, m):
    return dict(fam["base"], name=fam["base"]["name"] + m["sub"], arch=m["rpm_arch"])


def legacy_rpms_doc(desc):
    manifest = {}
    fams, style = desc["families"], desc["style"]
    for variant, vt in desc["table"].items():
        out = {}
        for arch, members in vt["binary"].items():
            out[arch] = {}
            for m in members:
                fam = fams[m["fam"]]
                out[arch].setdefault(_spell(_srpm(fam), style), {})[_spell(_member(fam, m), style)] = {
                    "path": m["path"], "sigkey": m["sigkey"], "type": m["type"]}
        if vt["has_src"]:
            out["src"] = {}
            for fi, data in vt["src"].items():
                out["src"][_spell(_srpm(fams[int(fi)]), style)] = {"path": data["path"], "sigkey": data["sigkey"], "type": "source"}
        manifest[variant] = out
    return {"header": {"version": desc["version"]}, "payload": {"compose": imm.compose_doc(desc["compose"]), "manifest": manifest}}


def legacy_rpms_expected(desc):
    fams = desc["families"]
    out = {}
    for variant, vt in desc["table"].items():
        for arch, members in vt["binary"].items():
            for m in members:
                fam = fams[m["fam"]]
                skey = mf.nevra_canonical(_srpm(fam))
                cell = out.setdefault(variant, {}).setdefault(arch, {}).setdefault(skey, {})
                cell[mf.nevra_canonical(_member(fam, m))] = {
                    "path": m["path"], "sigkey": m["sigkey"].lower() if m["sigkey"] else m["sigkey"],
                    "category": "binary" if m["type"] == "package" else m["type"]}
                src = vt["src"].get(str(m["fam"])) if vt["has_src"] else None
                if src is not None:
                    cell[skey] = {"path": src["path"], "sigkey": src["sigkey"].lower() if src["sigkey"] else src["sigkey"], "category": "source"}
    return out
