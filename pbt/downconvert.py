"""Older-format documents written the way an older library would have written them (doc/*-1.0.rst, *-1.1.rst and the
documented legacy mappings), together with the facts a faithful upgrade must preserve.  Used by C05, C10 and C15."""
import json
from hypothesis import strategies as st

from pbt import gen, im as imm, manifests as mf

# ---------------------------------------------------------------------------------------------------------------
# images 1.0 / 1.1

IMG_VARIANTS = ["Server", "Client", "Workstation", "Server-optional"]


@st.composite
def legacy_images_desc(draw, versions=("1.0", "1.1")):
    version = draw(st.sampled_from(list(versions)))
    nvar = draw(st.integers(1, 3))
    variants = draw(st.lists(st.sampled_from(IMG_VARIANTS), min_size=nvar, max_size=nvar, unique=True))
    entries = []
    serial = [0]

    def record(image_arch, variant=None):
        rec = draw(imm.image_record())
        rec["unified"] = False
        rec["additional_variants"] = []
        serial[0] += 1
        rec["disc_number"] = serial[0]          # distinct identities: collisions (different checksums) belong to C09 / KF-C05
        rec["path"] = "%s.%d" % (rec["path"], serial[0])
        rec["arch"] = image_arch
        if version == "1.0":
            rec["subvariant"] = ""
        twins = [e["rec"] for e in entries if e["variant"] == variant and e["arch"] == image_arch]
        if twins and draw(st.integers(0, 2)) == 0:
            # a second file with the SAME identity and the same checksums (a re-spun copy under another name): legal in every version
            for k in imm.IDENTITY + ["checksums"]:
                rec[k] = twins[0][k] if k != "checksums" else dict(twins[0][k])
        return rec

    layout = {}
    for variant in variants:
        arches = draw(st.lists(st.one_of(gen.arch_pool, st.sampled_from(gen.BINARY_ARCHES)), min_size=1, max_size=3, unique=True))
        layout[variant] = {"binary": arches, "has_src": draw(st.booleans())}
        for arch in arches:
            n = draw(st.sampled_from([0, 1, 1, 2]))
            for _ in range(n):
                entries.append({"variant": variant, "arch": arch, "rec": record(arch, variant)})
        if layout[variant]["has_src"]:
            for _ in range(draw(st.integers(0, 3))):          # 0: the document says "src": []
                shared = [e["rec"] for e in entries if e["arch"] == "src" and e["variant"] != variant]
                mine = [e["rec"]["path"] for e in entries if e["arch"] == "src" and e["variant"] == variant]
                if shared and draw(st.integers(0, 2)) == 0 and shared[0]["path"] not in mine:
                    # the one source ISO of the compose, listed by several variants: the very same record once more
                    entries.append({"variant": variant, "arch": "src", "rec": json.loads(json.dumps(shared[0])), "shared": True})
                else:
                    entries.append({"variant": variant, "arch": "src", "rec": record("src", variant)})
    return {"version": version, "compose": draw(gen.compose_section_desc()), "layout": layout, "entries": entries, "key_order": draw(st.integers(0, 2))}


def legacy_images_doc(desc):
    header = {"version": desc["version"]}
    if desc["version"] != "1.0":
        header["type"] = "productmd.images"
    images = {}
    for n, (variant, lay) in enumerate(desc["layout"].items()):
        keys = list(lay["binary"]) + (["src"] if lay["has_src"] else [])
        # the order of the arch keys in the file is the producer's: src last, first, or wherever sorting puts it
        order = (desc.get("key_order", 0) + n) % 3
        keys = keys if order == 0 else (sorted(keys) if order == 1 else [k for k in keys if k == "src"] + [k for k in keys if k != "src"])
        images[variant] = {a: [] for a in keys}
    for e in desc["entries"]:
        rec = imm.rec_doc(e["rec"])
        if desc["version"] == "1.0":
            del rec["subvariant"]
        images[e["variant"]][e["arch"]].append(rec)
    return {"header": header, "payload": {"compose": imm.compose_doc(desc["compose"]), "images": images}}


def legacy_images_expected_cells(desc):
    cells = {}
    for e in desc["entries"]:
        targets = desc["layout"][e["variant"]]["binary"] if e["arch"] == "src" else [e["arch"]]
        for arch in targets:
            cells.setdefault((e["variant"], arch), []).append(imm.rec_tuple(e["rec"]))
    return {k: sorted(v) for k, v in cells.items()}


# ---------------------------------------------------------------------------------------------------------------
# rpms 0.3 ("manifest" table, type package|debug|source, source RPMs under a "src" arch)

def _spell(nevra, style):
    """legal alternative spellings of the same package, used consistently inside one document"""
    text = mf.nevra_canonical(nevra)
    if style == "rpm":
        return text + ".rpm"
    if style == "padded":
        name_epoch, rest = text.split(":", 1)
        head, epoch = name_epoch.rsplit("-", 1)
        return "%s-0%s:%s" % (head, epoch, rest)
    return text


@st.composite
def legacy_rpms_desc(draw, versions=("0.3",)):
    fams = draw(st.lists(mf.package_family(), min_size=1, max_size=3))
    # distinct source packages
    seen = set()
    fams = [f for f in fams if not (mf.nevra_canonical(dict(f["base"], arch="src")) in seen or seen.add(mf.nevra_canonical(dict(f["base"], arch="src"))))]
    nvar = draw(st.integers(1, 3))
    variants = draw(st.lists(st.sampled_from(mf.VARIANTS), min_size=nvar, max_size=nvar, unique=True))
    style = draw(st.sampled_from(["canonical", "canonical", "canonical", "rpm", "padded"]))
    table = {}
    for variant in variants:
        arches = draw(st.lists(st.sampled_from(mf.ARCHES), min_size=1, max_size=3, unique=True))
        vt = {"binary": {}, "src": {}, "has_src": draw(st.sampled_from([True, True, False]))}
        for arch in arches:
            members = []
            for fi in draw(st.lists(st.integers(0, len(fams) - 1), min_size=1, max_size=len(fams), unique=True)):
                fam = fams[fi]
                for sub in draw(st.lists(st.sampled_from(fam["subs"]), min_size=1, max_size=len(fam["subs"]), unique=True)):
                    members.append({"fam": fi, "sub": sub, "rpm_arch": draw(st.sampled_from([arch, "noarch"])),
                                    "type": draw(st.sampled_from(["package", "package", "debug"])),
                                    "path": draw(gen.rel_path), "sigkey": draw(st.one_of(st.none(), st.sampled_from(["246110C1", "fd431d51", "AbCd"])))})
            vt["binary"][arch] = members
        if vt["has_src"]:
            for fi in draw(st.lists(st.integers(0, len(fams) - 1), max_size=len(fams), unique=True)):
                vt["src"][str(fi)] = {"path": draw(gen.rel_path), "sigkey": draw(st.one_of(st.none(), st.sampled_from(["246110C1", "fd431d51"])))}
        table[variant] = vt
    return {"version": draw(st.sampled_from(list(versions))), "families": fams, "style": style, "table": table,
            "compose": draw(gen.compose_section_desc())}


def _srpm(fam):
    return dict(fam["base"], arch=fam["src_arch"])


def _member(fam, m):
    return dict(fam["base"], name=fam["base"]["name"] + m["sub"], arch=m["rpm_arch"])


def legacy_rpms_doc(desc):
    manifest = {}
    fams, style = desc["families"], desc["style"]
    for variant, vt in desc["table"].items():
        out = {}
        for arch, members in vt["binary"].items():
            out[arch] = {}
            for m in members:
                fam = fams[m["fam"]]
                out[arch].setdefault(_spell(_srpm(fam), style), {})[_spell(_member(fam, m), style)] = {
                    "path": m["path"], "sigkey": m["sigkey"], "type": m["type"]}
        if vt["has_src"]:
            out["src"] = {}
            for fi, data in vt["src"].items():
                out["src"][_spell(_srpm(fams[int(fi)]), style)] = {"path": data["path"], "sigkey": data["sigkey"], "type": "source"}
        manifest[variant] = out
    return {"header": {"version": desc["version"]}, "payload": {"compose": imm.compose_doc(desc["compose"]), "manifest": manifest}}


def legacy_rpms_expected(desc):
    fams = desc["families"]
    out = {}
    for variant, vt in desc["table"].items():
        for arch, members in vt["binary"].items():
            for m in members:
                fam = fams[m["fam"]]
                skey = mf.nevra_canonical(_srpm(fam))
                cell = out.setdefault(variant, {}).setdefault(arch, {}).setdefault(skey, {})
                cell[mf.nevra_canonical(_member(fam, m))] = {
                    "path": m["path"], "sigkey": m["sigkey"].lower() if m["sigkey"] else m["sigkey"],
                    "category": "binary" if m["type"] == "package" else m["type"]}
                src = vt["src"].get(str(m["fam"])) if vt["has_src"] else None
                if src is not None:
                    cell[skey] = {"path": src["path"], "sigkey": src["sigkey"].lower() if src["sigkey"] else src["sigkey"], "category": "source"}
    return out


# ---------------------------------------------------------------------------------------------------------------
# composeinfo 0.x / 1.0 / 1.1

from pbt import ci as cim, ti as tim   # noqa: E402

CI_VERSIONS = ["1.1", "1.0", "0.9", "0.4", "0.3", "0.2", "0.0"]


def vtuple(version):
    return tuple(int(x) for x in version.split("."))


def _legacy_forest_ok(desc):
    """pre-1.0 files relate variants only by UID prefix: depth <= 2 and no dashed top-level UID that looks like somebody's child"""
    uids = set(n["uid"] for n in cim.all_nodes(desc["variants"]))
    for top in desc["variants"]:
        for kid in top["children"]:
            if kid["children"]:
                return False
        if top["uid"] != top["id"]:
            if top["children"]:
                return False
            head = top["uid"].rsplit("-", 1)[0]
            if head in uids or any(u != top["uid"] and (u.startswith(top["uid"] + "-") or top["uid"].startswith(u + "-")) for u in uids):
                return False
    return True


@st.composite
def legacy_ci_desc(draw):
    version = draw(st.sampled_from(CI_VERSIONS))
    desc = draw(cim.compose_desc(max_top=3, max_depth=3 if vtuple(version) >= (1, 0) else 2))
    if vtuple(version) < (1, 0):
        desc["variants"] = [t for t in desc["variants"] if _legacy_forest_ok({"variants": [t]})]
        if not _legacy_forest_ok(desc):
            desc["variants"] = [t for t in desc["variants"] if t["uid"] == t["id"]]
    if vtuple(version) < (0, 3):
        # date/type/respin exist only inside the id: it must be the documented id form
        desc["compose"]["id"] = cim.ref_compose_id(desc["release"], desc["base_product"], desc["compose"])
    return {"version": version, "desc": desc, "stored_type": draw(st.sampled_from(["production", "nightly", "", "whatever"]))}


def legacy_ci_doc(case):
    version, desc = case["version"], case["desc"]
    v = vtuple(version)
    doc = cim.expected_doc(desc, version=version)
    if v < (1, 1):
        del doc["header"]["type"]
        p = doc["payload"]
        p["release"].pop("type", None)
        p["release"].pop("internal", None)
        if "base_product" in p:
            p["base_product"].pop("type", None)
        for var in p["variants"].values():
            if "release" in var:
                var["release"].pop("type", None)
                var["release"].pop("internal", None)
    if v < (1, 0):
        for var in doc["payload"]["variants"].values():
            var.pop("variants", None)
    if v <= (0, 3):
        p = doc["payload"]
        p["product"] = p.pop("release")
        for var in p["variants"].values():
            if "release" in var:
                var["product"] = var.pop("release")
    if v < (0, 3):
        comp = doc["payload"]["compose"]
        del comp["date"], comp["respin"]
        comp["type"] = case["stored_type"]
    return doc


def legacy_ci_expected(case):
    version, desc = case["version"], copy_desc(case["desc"])
    if vtuple(version) < (1, 1):
        desc["release"]["type"] = "ga"
        desc["release"]["internal"] = False
        if desc["base_product"]:
            desc["base_product"]["type"] = "ga"
        for n in cim.all_nodes(desc["variants"]):
            if "release" in n:
                n["release"]["type"] = "ga"
                n["release"]["internal"] = False
    return cim.expected_snapshot(desc)


def copy_desc(d):
    import copy
    return copy.deepcopy(d)


# ---------------------------------------------------------------------------------------------------------------
# treeinfo 0.0 (compatibility sections only) / 0.3 / 1.0 / 1.1

TI_VERSIONS = ["1.1", "1.0", "0.3", "0.0"]


def _plain(p):
    return p is None or (bool(p) and not p.endswith("/") and not p.endswith("/repodata") and p != "repodata" and not p.startswith("/"))


@st.composite
def legacy_ti_desc(draw):
    version = draw(st.sampled_from(TI_VERSIONS))
    if version == "0.0":
        desc = draw(tim.tree_desc(max_depth=1, family_filter=tim.plain_family).filter(
            lambda d: "-" not in d["release"]["version"] and "_" not in d["release"]["version"]
            and all(_plain(n["paths"].get(k)) for n in d["variants"] for k in tim.PATH_KINDS)))
        desc["layered"], desc["base_product"] = False, None
    elif version == "0.3":
        # the 0.3 reader looks a variant's options up by UID and then by ID: a file in which some variant's id is another
        # variant's UID is ambiguous by construction and not generated
        def unambiguous(d):
            nodes = list(tim.all_nodes(d["variants"]))
            uids = set(n["uid"] for n in nodes)
            return all(n["uid"] == n["id"] or n["id"] not in uids for n in nodes)
        desc = draw(tim.tree_desc().filter(unambiguous))
    else:
        desc = draw(tim.tree_desc())
    if version == "0.3" and desc["tree"]["arch"] == "src":
        # legacy convention: a source tree keeps its (source) packages/repository under the binary option names
        for n in tim.all_nodes(desc["variants"]):
            n["paths"].pop("packages", None)
            n["paths"].pop("repository", None)
    # the documented variant section lists child variants under 'variants' and child add-ons under 'addons'; this library writes
    # all children under 'addons'.  Other producers follow the documentation: split by type / everything under 'variants'
    return {"version": version, "desc": desc, "use_main": draw(st.booleans()), "child_keys": draw(st.sampled_from(["as-written", "by-type", "by-type", "all-variants"]))}


def legacy_ti_text(case, current_text):
    """current_text = what the current library writes for the description; returns the older-format file"""
    version, desc = case["version"], case["desc"]
    ini = tim.read_ini(current_text)
    if version in ("1.1", "1.0"):
        ini["header"]["version"] = version
        if version == "1.0":
            del ini["header"]["type"]
    elif version == "0.3":
        ini["header"] = {"version": "0.3"}
        ini["product"] = ini.pop("release")
        if desc["tree"]["arch"] == "src":
            for sec in ini:
                if sec.startswith("variant-") or sec.startswith("addon-"):
                    if "source_packages" in ini[sec]:
                        ini[sec]["packages"] = ini[sec].pop("source_packages")
                    if "source_repository" in ini[sec]:
                        ini[sec]["repository"] = ini[sec].pop("source_repository")
    else:
        ini = {s: o for s, o in ini.items() if s in ("general", "stage2", "checksums") or s.startswith("images-")}
    if version != "0.0" and case.get("child_keys", "as-written") != "as-written":
        types = dict((n["uid"], n["type"]) for n in tim.all_nodes(desc["variants"]))
        for sec in ini:
            if (sec.startswith("variant-") or sec.startswith("addon-")) and "addons" in ini[sec]:
                kids = ini[sec].pop("addons").split(",")
                under_addons = [k for k in kids if types[k] == "addon" and case["child_keys"] == "by-type"]
                under_variants = [k for k in kids if k not in under_addons]
                if under_addons:
                    ini[sec]["addons"] = ",".join(under_addons)
                if under_variants:
                    ini[sec]["variants"] = ",".join(under_variants)
    out = []
    for sec in sorted(ini):
        out.append("[%s]" % sec)
        for k in sorted(ini[sec]):
            out.append("%s = %s" % (k, ini[sec][k]))
        out.append("")
    return "\n".join(out)


def legacy_ti_expected(case):
    version, desc = case["version"], case["desc"]
    snap = tim.expected_snapshot(desc)
    if version != "0.0":
        return snap
    main = desc["main_variant"] if case["use_main"] else None
    main_uid = main if main is not None else sorted(n["uid"] for n in desc["variants"])[0]
    node = [n for n in desc["variants"] if n["uid"] == main_uid][0]
    t = desc["tree"]
    src = t["arch"] == "src"
    g = tim.expected_general(desc, main)
    repo = g.get("repository", ".")
    pk = g.get("packagedir", repo)
    paths = {k: None for k in tim.PATH_KINDS}
    if src:
        paths["source_packages"], paths["source_repository"] = pk, repo
    else:
        paths["packages"], paths["repository"] = pk, repo
    vid = main_uid.split("-")[-1]
    return {"release": {"name": desc["release"]["name"], "short": "", "version": desc["release"]["version"], "is_layered": False},
            "tree": {"arch": t["arch"], "build_timestamp": int(t["build_timestamp"]), "platforms": sorted(set([t["arch"]]) | set(t["platforms"]) | set(desc["images"]))},
            "variants": {main_uid: {"id": vid, "uid": main_uid, "name": vid, "type": "variant", "paths": paths, "parent": None, "children": {}}},
            "images": snap["images"], "stage2": snap["stage2"], "media": {"discnum": None, "totaldiscs": None}, "checksums": snap["checksums"]}
