"""Shared machinery: seeds, tiers, sharding, Hypothesis wiring, evidence, replay files, exit protocol.

A property module (pbt/props/cXX.py) defines

    PROPERTY = "C01"; LEVEL = "exploration"; RULE = "..."   (what is generated / what is non-trivial)
    def run(ctx): ...        registers and executes sub-checks through ctx.forall / ctx.sweep
    REPLAY = {subcheck_name: fn(case)}                     used by ./check Cxx --replay FILE
    WITNESSES = {finding_id: fn() -> str|None}             optional, for known_findings.txt entries
    FLOORS = {"distinct_nontrivial": n, ...}               optional vacuity guards

Every sub-check function takes ONE JSON-able case description and either returns (None or an info dict
{"nontrivial": bool, "labels": [...]}) or raises Violation(bucket, message).  Anything else that escapes is
a harness error (exit 2), never a VIOLATION.
"""
import hashlib
import json
import os
import sys
import time
import traceback
import collections
import multiprocessing

VERIF_DIR = os.path.dirname(os.path.dirname(os.path.abspath(__file__)))
REPO = os.environ.get("VERIF_REPO", "/repo")
# overridden only by the sensitivity experiments (tools/try_patch.sh) so that mutant runs never touch committed evidence
EVIDENCE_DIR = os.environ.get("VERIF_EVIDENCE_DIR") or os.path.join(VERIF_DIR, "evidence")
REPLAY_DIR = os.environ.get("VERIF_REPLAY_DIR") or os.path.join(VERIF_DIR, "replays")


def import_productmd():
    """Import productmd from the tree under test ($VERIF_REPO, default /repo) and make sure that is what we got."""
    repo = os.path.realpath(REPO)
    if repo not in sys.path:
        sys.path.insert(0, repo)
    for name in [m for m in sys.modules if m == "productmd" or m.startswith("productmd.")]:
        del sys.modules[name]
    import productmd  # noqa
    here = os.path.realpath(productmd.__file__)
    if not here.startswith(repo + os.sep):
        raise HarnessError("productmd imported from %s, expected under %s" % (here, repo))
    return productmd


class HarnessError(Exception):
    pass


class Violation(AssertionError):
    def __init__(self, bucket, message=""):
        AssertionError.__init__(self, "%s: %s" % (bucket, message))
        self.bucket = bucket
        self.message = message


def pm_frame(tb):
    """innermost productmd frame of a traceback, 'file:function' (for bucketing)."""
    where = "?"
    while tb is not None:
        fn = tb.tb_frame.f_code.co_filename
        if os.sep + "productmd" + os.sep in fn:
            where = "%s:%s" % (os.path.basename(fn), tb.tb_frame.f_code.co_name)
        tb = tb.tb_next
    return where


def must(bucket, fn, *args, **kwargs):
    """Call library code that the property says must succeed; any exception becomes a Violation."""
    try:
        return fn(*args, **kwargs)
    except Violation:
        raise
    except RecursionError as exc:
        raise Violation("%s/RecursionError" % bucket, "RecursionError")
    except Exception as exc:  # noqa
        raise Violation("%s/%s@%s" % (bucket, type(exc).__name__, pm_frame(exc.__traceback__)),
                        "%s: %s" % (type(exc).__name__, str(exc)[:300]))


def refuses(bucket, allowed, fn, *args, **kwargs):
    """Call library code that must raise one of `allowed`; returns the exception.  Returning normally, or raising
    something else, is a Violation."""
    try:
        fn(*args, **kwargs)
    except allowed as exc:
        return exc
    except Violation:
        raise
    except Exception as exc:  # noqa
        raise Violation("%s/wrong-exception-%s@%s" % (bucket, type(exc).__name__, pm_frame(exc.__traceback__)),
                        "expected %s, got %s: %s" % ("/".join(a.__name__ for a in allowed), type(exc).__name__, str(exc)[:300]))
    raise Violation("%s/not-refused" % bucket, "call returned normally, expected %s" % "/".join(a.__name__ for a in allowed))


def check(cond, bucket, message=""):
    if not cond:
        raise Violation(bucket, message() if callable(message) else message)


def canon(case):
    return json.dumps(case, sort_keys=True, default=repr, ensure_ascii=True)


def case_hash(case):
    return hashlib.sha1(canon(case).encode()).hexdigest()[:16]


def derive_seed(*parts):
    h = hashlib.sha256(repr(parts).encode()).digest()
    return int.from_bytes(h[:8], "big")


def clip(obj, limit=1800):
    s = canon(obj)
    if len(s) <= limit:
        return json.loads(s)
    return {"truncated_json": s[:limit] + "...", "full_length": len(s)}


class Sub(object):
    def __init__(self, name):
        self.name = name
        self.evaluations = 0
        self.nontrivial = set()
        self.labels = collections.Counter()
        self.samples = []
        self.excluded_known = 0
        self.exhaustive = None
        self.wall = 0.0
        self.notes = []

    def export(self):
        return {"name": self.name, "evaluations": self.evaluations, "nontrivial": sorted(self.nontrivial),
                "labels": dict(self.labels), "samples": self.samples, "excluded_known": self.excluded_known,
                "exhaustive": self.exhaustive, "wall": self.wall, "notes": self.notes}


class Ctx(object):
    def __init__(self, prop, tier, seed, shard=0, nshards=1, only=None):
        self.prop, self.tier, self.seed, self.shard, self.nshards, self.only = prop, tier, seed, shard, nshards, only
        self.subs = collections.OrderedDict()
        self.violations = []
        self.known_lines = []
        self.inconclusive = []

    # ---- sizing -------------------------------------------------------------------------------------------
    def n(self, quick, thorough=None):
        """number of cases for THIS shard: totals are given for the whole run."""
        total = quick if self.tier == "quick" else (thorough if thorough is not None else quick * 20)
        return max(1, -(-total // self.nshards))

    @property
    def thorough(self):
        return self.tier == "thorough"

    def sub(self, name):
        if name not in self.subs:
            self.subs[name] = Sub(name)
        return self.subs[name]

    def wanted(self, name):
        return self.only is None or name in self.only

    def _account(self, sub, case, info, default_nt):
        nt = default_nt
        labels = ()
        if isinstance(info, dict):
            nt = info.get("nontrivial", nt)
            labels = info.get("labels", ())
        for lab in labels:
            sub.labels[lab] += 1
        if isinstance(info, dict) and "units" in info:
            # a case that enumerates many sub-cases (e.g. fault points): each executed unit counts as an evaluation,
            # each non-trivial unit as a distinct non-trivial case
            sub.evaluations += max(0, info.get("unit_evaluations", len(info["units"])) - 1)
            h = case_hash(case)
            for unit in info["units"]:
                sub.nontrivial.add(hashlib.sha1((h + "|" + unit).encode()).hexdigest()[:16])
            sub.labels["nontrivial"] += len(info["units"])
            if info["units"] and len(sub.samples) < 3:
                sub.samples.append({"case": clip(case, 1200), "units": info["units"][:8]})
            return
        if nt:
            sub.labels["nontrivial"] += 1
            h = case_hash(case)
            if h not in sub.nontrivial:
                sub.nontrivial.add(h)
                if len(sub.samples) < 3:
                    sub.samples.append(clip(case))
        elif not sub.samples and sub.evaluations > 50:
            pass

    def _violation(self, name, case, v):
        self.violations.append({"property": self.prop, "subcheck": name, "bucket": v.bucket, "message": v.message,
                                "case": case, "seed": self.seed, "shard": self.shard, "tier": self.tier})

    # ---- random generation (Hypothesis) ---------------------------------------------------------------------
    def forall(self, name, strategy, fn, examples, nontrivial=None, shrink=True):
        if not self.wanted(name):
            return
        import hypothesis
        from hypothesis import given, settings, HealthCheck, Phase
        sub = self.sub(name)
        t0 = time.time()
        state = {"fail": None}
        phases = [Phase.generate] + ([Phase.shrink] if shrink else [])
        recent = collections.deque(maxlen=40)

        @hypothesis.seed(derive_seed(self.seed, self.shard, self.prop, name))
        @settings(max_examples=examples, database=None, deadline=None, derandomize=False,
                  report_multiple_bugs=False, phases=phases, print_blob=False,
                  suppress_health_check=[HealthCheck.too_slow, HealthCheck.data_too_large,
                                         HealthCheck.filter_too_much, HealthCheck.large_base_example])
        @given(strategy)
        def test(case):
            sub.evaluations += 1
            try:
                info = fn(case)
            except Violation as v:
                if state["fail"] is None or not state.get("history"):
                    state["history"] = list(recent)
                state["fail"] = (case, v)
                raise
            finally:
                recent.append(case)
            self._account(sub, case, info, nontrivial(case) if nontrivial else True)

        flaky = tuple(c for c in (getattr(hypothesis.errors, "Flaky", None), getattr(hypothesis.errors, "FlakyFailure", None)) if c)
        try:
            test()
        except Violation:
            case, v = state["fail"]
            self._violation(name, case, v)
        except flaky as exc:
            if state["fail"] is None:
                raise HarnessError("sub-check %s: %s: %s" % (name, type(exc).__name__, exc))
            # the same case passed and failed in one process: the verdict depends on what ran before it, i.e. state leaks
            # between calls / objects inside the library.  Report it with the cases that preceded the first failure.
            case, v = state["fail"]
            seq = {"__sequence__": state.get("history", [])[-40:] + [case]}
            self._violation(name, seq, Violation("order-dependent/" + v.bucket, "the case fails only after earlier cases ran in the same process (state "
                                                 "shared between calls or objects): " + v.message))
        except hypothesis.errors.HypothesisException as exc:
            raise HarnessError("sub-check %s: %s: %s" % (name, type(exc).__name__, exc))
        except Exception as exc:  # noqa
            # the engine itself tripped (seen: "ValueError: 95 is not in list" inside the shrinker) after the property had failed
            # with a Violation: that happens when replaying a case gives another outcome than before, i.e. the verdict depends on
            # what ran earlier in the process.  Without a recorded Violation it is a harness error.
            if state["fail"] is None:
                raise HarnessError("sub-check %s: %s: %s" % (name, type(exc).__name__, exc))
            case, v = state["fail"]
            seq = {"__sequence__": state.get("history", [])[-40:] + [case]}
            self._violation(name, seq, Violation("order-dependent/" + v.bucket, "the case fails only after earlier cases ran in the same process (state "
                                                 "shared between calls or objects; the generator engine could not replay it: %s): %s" % (type(exc).__name__, v.message)))
        sub.wall += time.time() - t0

    # ---- deterministic enumeration ----------------------------------------------------------------------------
    def sweep(self, name, cases, fn, nontrivial=None, exhaustive=False, stop_after=1):
        """cases: iterable of JSON-able cases; this shard takes every nshards-th one."""
        if not self.wanted(name):
            return
        sub = self.sub(name)
        t0 = time.time()
        found = 0
        for i, case in enumerate(cases):
            if i % self.nshards != self.shard:
                continue
            sub.evaluations += 1
            try:
                info = fn(case)
            except Violation as v:
                self._violation(name, case, v)
                found += 1
                if found >= stop_after:
                    break
                continue
            self._account(sub, case, info, nontrivial(case) if nontrivial else True)
        if exhaustive and not found:
            sub.exhaustive = True
        sub.wall += time.time() - t0

    def export(self):
        return {"subs": [s.export() for s in self.subs.values()], "violations": self.violations,
                "inconclusive": self.inconclusive}


# ---------------------------------------------------------------------------------------------------------------

def _worker(args):
    modname, prop, tier, seed, shard, nshards, only = args
    try:
        import importlib
        import_productmd()
        mod = importlib.import_module(modname)
        ctx = Ctx(prop, tier, seed, shard, nshards, only)
        mod.run(ctx)
        return ("ok", ctx.export())
    except HarnessError as exc:
        return ("harness", "%s" % exc)
    except BaseException:  # noqa
        return ("harness", traceback.format_exc())


def load_known_findings():
    known, fixed = [], []
    path = os.path.join(VERIF_DIR, "known_findings.txt")
    if os.path.exists(path):
        for line in open(path):
            line = line.strip()
            if not line or line.startswith("#"):
                continue
            kind, _, rest = line.partition(":")
            fields = dict(tok.split("=", 1) for tok in rest.split() if "=" in tok and tok.split("=", 1)[0] in ("property", "id"))
            entry = {"property": fields.get("property"), "id": fields.get("id"), "text": rest.strip()}
            (known if kind == "known" else fixed).append(entry)
    return known, fixed


def run_property(mod, tier, seed, only=None, jobs=None):
    prop = mod.PROPERTY
    t0 = time.time()
    if jobs is None:
        jobs = int(os.environ.get("VERIF_JOBS", "0")) or (16 if tier == "thorough" else getattr(mod, "QUICK_JOBS", 8))
    jobs = max(1, min(jobs, multiprocessing.cpu_count() or 1, 16))
    args = [(mod.__name__, prop, tier, seed, i, jobs, only) for i in range(jobs)]
    if jobs == 1:
        results = [_worker(args[0])]
    else:
        mp = multiprocessing.get_context("fork")
        # a case that never returns (an endless loop in the code under test) must not hang the check for good: that is an
        # inconclusive run (exit 2), never a verdict.  The limit is far above any legitimate run (quick: 1-60 s, thorough: 1-8 min)
        limit = float(os.environ.get("VERIF_WATCHDOG", "0")) or (1500.0 if tier == "quick" else 4 * 3600.0)
        with mp.Pool(jobs) as pool:
            pending = pool.map_async(_worker, args, chunksize=1)
            try:
                results = pending.get(timeout=limit)
            except multiprocessing.TimeoutError:
                pool.terminate()
                sys.stderr.write("HARNESS ERROR in %s: worker processes still running after %.0f s (a case does not return); inconclusive\n" % (prop, limit))
                return 2
    bad = [r[1] for r in results if r[0] != "ok"]
    if bad:
        sys.stderr.write("HARNESS ERROR in %s:\n%s\n" % (prop, bad[0]))
        return 2

    # merge
    subs = collections.OrderedDict()
    violations, inconclusive = [], []
    for _, res in results:
        violations.extend(res["violations"])
        inconclusive.extend(res["inconclusive"])
        for s in res["subs"]:
            m = subs.setdefault(s["name"], {"evaluations": 0, "nontrivial": set(), "labels": collections.Counter(),
                                            "samples": [], "excluded_known": 0, "exhaustive": None, "wall": 0.0, "notes": []})
            m["evaluations"] += s["evaluations"]
            m["nontrivial"].update(s["nontrivial"])
            m["labels"].update(s["labels"])
            if len(m["samples"]) < 3:
                m["samples"].extend(s["samples"][:3 - len(m["samples"])])
            m["excluded_known"] += s["excluded_known"]
            if s["exhaustive"] is not None:
                m["exhaustive"] = s["exhaustive"] if m["exhaustive"] in (None, True) else False
            m["wall"] = max(m["wall"], s["wall"])
            for note in s["notes"]:
                if note not in m["notes"]:
                    m["notes"].append(note)

    # known findings: deterministic witnesses (parent process)
    known, fixed = load_known_findings()
    witnesses = getattr(mod, "WITNESSES", {})
    known_out = []
    for entry in known:
        if entry["property"] != prop:
            continue
        w = witnesses.get(entry["id"])
        if w is None:
            sys.stderr.write("HARNESS ERROR: known finding %s has no witness in %s\n" % (entry["id"], mod.__name__))
            return 2
        try:
            what = w()
        except Exception:  # noqa
            sys.stderr.write("HARNESS ERROR: witness %s crashed:\n%s\n" % (entry["id"], traceback.format_exc()))
            return 2
        if what:
            print("KNOWN-FINDING: property=%s %s [%s]" % (prop, what, entry["id"]))
            known_out.append({"id": entry["id"], "still_fails": True, "what": what})
        else:
            print("note: known finding %s of %s no longer reproduces (entry can be retired)" % (entry["id"], prop))
            known_out.append({"id": entry["id"], "still_fails": False})

    # dedupe violations by (subcheck, bucket); write replays
    seen = {}
    for v in violations:
        key = (v["subcheck"], v["bucket"])
        if key not in seen or len(canon(v["case"])) < len(canon(seen[key]["case"])):
            seen[key] = v
    replay_paths = []
    for (subname, bucket), v in sorted(seen.items()):
        slug = "".join(c if c.isalnum() else "_" for c in bucket)[:60]
        path = os.path.join(REPLAY_DIR, "%s-%s-%s-%s.json" % (prop, subname, slug, case_hash(v["case"])[:8]))
        os.makedirs(os.path.dirname(path), exist_ok=True)
        with open(path, "w") as fo:
            json.dump(v, fo, indent=1, sort_keys=True, default=repr)
        replay_paths.append(path)
        print("VIOLATION property=%s replay=%s" % (prop, path))
        print("  sub-check=%s bucket=%s\n  %s" % (subname, bucket, v["message"][:400]))

    total_eval = sum(m["evaluations"] for m in subs.values())
    total_nt = sum(len(m["nontrivial"]) for m in subs.values())
    samples = []
    for name, m in subs.items():
        for s in m["samples"][:2]:
            samples.append({"subcheck": name, "case": s})
    coverage = {
        "evaluations": total_eval,
        "distinct_nontrivial": total_nt,
        "rule": mod.RULE,
        "samples": samples[:12],
        "subchecks": {name: {"evaluations": m["evaluations"], "distinct_nontrivial": len(m["nontrivial"]),
                             "classes": dict(sorted(m["labels"].items())), "excluded_known": m["excluded_known"],
                             "exhaustive": bool(m["exhaustive"]), "wall_s": round(m["wall"], 2), "notes": m["notes"]}
                      for name, m in subs.items()},
        "excluded_known": sum(m["excluded_known"] for m in subs.values()),
        "exhaustive": bool(subs) and all(m["exhaustive"] for m in subs.values()),
        "known_findings": known_out,
        "inconclusive": inconclusive[:20],
        "worker_processes": jobs,
        "tree": os.path.realpath(REPO),
    }
    evidence = {"property_id": prop, "tier": tier, "seed": seed, "level": mod.LEVEL, "coverage": coverage,
                "assumptions": list(getattr(mod, "ASSUMPTIONS", [])), "wall_s": round(time.time() - t0, 2),
                "violations": len(seen)}
    os.makedirs(EVIDENCE_DIR, exist_ok=True)
    with open(os.path.join(EVIDENCE_DIR, "%s.json" % prop), "w") as fo:
        json.dump(evidence, fo, indent=1, sort_keys=True, default=repr)

    print("%s %s seed=%d: %d cases, %d distinct non-trivial, %d violation bucket(s), %.1fs"
          % (prop, tier, seed, total_eval, total_nt, len(seen), time.time() - t0))
    if seen:
        return 1

    # vacuity guards (generator broken => harness error, not a verdict)
    if only is None:
        floors = getattr(mod, "FLOORS", {})
        for name, floor in floors.items():
            if name == "distinct_nontrivial":
                got = total_nt
            elif ":" in name:
                subname, label = name.split(":", 1)
                got = subs.get(subname, {"labels": {}})["labels"].get(label, 0)
            else:
                got = len(subs.get(name, {"nontrivial": ()})["nontrivial"])
            want = floor if tier == "quick" else floor
            if got < want:
                sys.stderr.write("HARNESS ERROR: vacuity guard %s: %d < %d\n" % (name, got, want))
                return 2
    return 0


def replay(mod, path):
    import_productmd()
    rec = json.load(open(path))
    fn = mod.REPLAY.get(rec["subcheck"])
    if fn is None:
        sys.stderr.write("no replay function for sub-check %s\n" % rec["subcheck"])
        return 2
    try:
        case = rec["case"]
        if isinstance(case, dict) and "__sequence__" in case:
            # order-dependent finding: run the recorded cases one after the other in this process
            last = None
            for c in case["__sequence__"]:
                try:
                    fn(c)
                except Violation as v:
                    last = v
            if last is not None:
                raise last
        else:
            fn(case)
    except Violation as v:
        print("VIOLATION property=%s replay=%s" % (mod.PROPERTY, os.path.abspath(path)))
        print("  bucket=%s\n  %s" % (v.bucket, v.message[:400]))
        return 1
    print("replay of %s: property held" % path)
    return 0
