"""Run in a FRESH interpreter (python -m pbt.c19_inventory): wraps the re module before productmd is imported, runs a
touch-everything workload and prints (as JSON) every regular expression productmd handed to re, with call sites."""
import glob
import io
import json
import os
import re
import sys
import traceback

REPO = os.path.realpath(os.environ.get("VERIF_REPO", "/repo"))
sys.path.insert(0, REPO)

seen = {}


def _site():
    """the DIRECT caller of the re function must be productmd code (patterns of stdlib modules it imports are not its own)"""
    frame = sys._getframe(1)
    while frame is not None and frame.f_code.co_filename == __file__:
        frame = frame.f_back
    if frame is None:
        return None
    filename = os.path.realpath(frame.f_code.co_filename)
    if filename.startswith(os.path.join(REPO, "productmd") + os.sep):
        return "%s:%s" % (os.path.basename(filename), frame.f_code.co_name)
    return None


def _record(kind, pattern, flags=0):
    site = _site()
    if site is None:
        return
    if hasattr(pattern, "pattern"):
        flags = pattern.flags
        pattern = pattern.pattern
    if not isinstance(pattern, str):
        return
    entry = seen.setdefault((pattern, int(flags)), {"pattern": pattern, "flags": int(flags), "sites": set(), "kinds": set()})
    entry["sites"].add(site)
    entry["kinds"].add(kind)


_orig = {}


class PatternProxy(object):
    """wraps a compiled pattern so that its own match/search/... calls are attributed too"""
    def __init__(self, compiled):
        self._c = compiled

    def __getattr__(self, name):
        attr = getattr(self._c, name)
        if name in ("match", "search", "fullmatch", "split", "sub", "findall", "finditer", "subn"):
            def wrapper(*a, **kw):
                _record(name, self._c)
                return attr(*a, **kw)
            return wrapper
        return attr


def install():
    for name in ("match", "search", "fullmatch", "split", "sub", "subn", "findall", "finditer"):
        _orig[name] = getattr(re, name)

        def make(name):
            def wrapper(pattern, *a, **kw):
                _record(name, pattern, kw.get("flags", 0))
                if isinstance(pattern, PatternProxy):
                    pattern = pattern._c
                return _orig[name](pattern, *a, **kw)
            return wrapper
        setattr(re, name, make(name))
    _orig["compile"] = re.compile

    def compile_(pattern, flags=0):
        c = _orig["compile"](pattern._c if isinstance(pattern, PatternProxy) else pattern, flags)
        _record("compile", c)
        return PatternProxy(c) if _site() else c
    re.compile = compile_


def quiet(fn, *a, **kw):
    try:
        return fn(*a, **kw)
    except Exception:  # noqa
        return None


def workload():
    import productmd
    import productmd.common as common
    import productmd.compose
    import productmd.composeinfo as ci
    import productmd.discinfo as di
    import productmd.extra_files as ef
    import productmd.images as im
    import productmd.modules as mo
    import productmd.rpms as rp
    import productmd.treeinfo as ti
    assert os.path.realpath(productmd.__file__).startswith(REPO + os.sep)
    samples = ["rhel", "RHEL!", "7.2", "1.", "updates-testing", "glibc-0:2.18-11.fc20.x86_64.rpm", "foo", "a:b:c:d", "a", "Beta-1.2", "GA",
               "F-22-20160622.n.3", "Hello", "rhel-7.2-updates@rhel-7", ""]
    for s in samples:
        for fn in (common.is_valid_release_short, common.is_valid_release_version, common.is_valid_release_type, common.parse_nvra,
                   common.split_version, common.get_major_version, common.get_minor_version, common.parse_release_id,
                   mo.Modules.parse_uid, ci.verify_label, ci.get_date_type_respin):
            quiet(fn, s)
        quiet(common.create_release_id, s, s, s)
        quiet(common.create_release_id, "rhel", "7", "ga", s, s, s)
    # every metadata class: validate() with valid-looking and invalid-looking values
    c = ci.ComposeInfo()
    c.release.name, c.release.short, c.release.version, c.release.type = "Fedora", "F", "22", "ga"
    c.compose.id, c.compose.type, c.compose.date, c.compose.respin, c.compose.label = "F-22-20160622.n.3", "nightly", "20160622", 3, "Beta-1.2"
    c.base_product.name, c.base_product.short, c.base_product.version, c.base_product.type = "B", "b", "1", "ga"
    c.release.is_layered = True
    v = ci.Variant(c)
    v.id, v.uid, v.name, v.type, v.arches = "Server", "Server", "Server", "variant", set(["x86_64"])
    c.variants.add(v)
    k = ci.Variant(c)
    k.id, k.uid, k.name, k.type, k.arches = "HA", "Server-HA", "HA", "layered-product", set(["x86_64"])
    k.release.name, k.release.short, k.release.version, k.release.type = "L", "l", "1", "ga"
    v.add(k)
    text = quiet(c.dumps)
    for obj in (c, c.header, c.compose, c.release, c.base_product, c.variants, v, v.paths, k, k.release):
        quiet(obj.validate)
    quiet(c.create_compose_id)
    if text:
        for version in ("0.0", "0.3", "1.0", "1.1", "1.2"):
            doc = json.loads(text)
            doc["header"]["version"] = version
            doc["payload"]["product"] = doc["payload"]["release"]
            quiet(ci.ComposeInfo().loads, json.dumps(doc))
    images = im.Images()
    images.header.version = "1.2"
    images.compose.id, images.compose.type, images.compose.date, images.compose.respin = "F-22-20160622.n.3", "nightly", "20160622", 3
    img = im.Image(images)
    img.path, img.mtime, img.size, img.volume_id, img.type, img.format, img.arch = "p", 1, 1, "v", "dvd", "iso", "x86_64"
    img.disc_number, img.disc_count, img.checksums, img.implant_md5, img.bootable, img.subvariant = 1, 1, {"md5": "x"}, "a" * 32, True, "S"
    quiet(images.add, "Server", "x86_64", img)
    quiet(img.validate)
    text = quiet(images.dumps)
    if text:
        for version in ("1.0", "1.1", "1.2"):
            doc = json.loads(text)
            doc["header"]["version"] = version
            quiet(im.Images().loads, json.dumps(doc))
    r = rp.Rpms()
    r.compose.id, r.compose.type, r.compose.date, r.compose.respin = "F-22-20160622.n.3", "nightly", "20160622", 3
    quiet(r.add, "Server", "x86_64", "glibc-0:2.18-11.fc20.x86_64.rpm", "p", "AA", "binary", "glibc-0:2.18-11.fc20.src.rpm")
    quiet(r.add, "Server", "x86_64", "foo", "p", None, "binary", "bar")
    text = quiet(r.dumps)
    if text:
        quiet(rp.Rpms().loads, text)
        doc = json.loads(text)
        doc["header"]["version"] = "0.3"
        doc["payload"]["manifest"] = {"Server": {"x86_64": {"glibc-0:2.18-11.fc20.src": {"glibc-0:2.18-11.fc20.x86_64": {"path": "p", "sigkey": None, "type": "package"}}},
                                                 "src": {"glibc-0:2.18-11.fc20.src": {"path": "s", "sigkey": None, "type": "source"}}}}
        quiet(rp.Rpms().loads, json.dumps(doc))
    m = mo.Modules()
    m.compose.id, m.compose.type, m.compose.date, m.compose.respin = "F-22-20160622.n.3", "nightly", "20160622", 3
    quiet(m.add, "Server", "x86_64", "dir/nodejs:10:2018:abc", "tag", "p", "binary", ["a-0:1-1.x86_64"])
    quiet(m.add, "Server", "x86_64", "nodejs", "tag", "p", "binary", [])
    text = quiet(m.dumps)
    if text:
        quiet(mo.Modules().loads, text)
    e = ef.ExtraFiles()
    e.compose.id, e.compose.type, e.compose.date, e.compose.respin = "F-22-20160622.n.3", "nightly", "20160622", 3
    quiet(e.add, "Server", "x86_64", "Server/x86_64/os/GPL", 1, {"md5": "x"})
    text = quiet(e.dumps)
    if text:
        quiet(ef.ExtraFiles().loads, text)
        quiet(e.dump_for_tree, io.StringIO(), "Server", "x86_64", "Server/x86_64/os")
    t = ti.TreeInfo()
    t.release.name, t.release.short, t.release.version, t.release.is_layered = "Fedora", "F", "20", True
    t.base_product.name, t.base_product.short, t.base_product.version = "B", "b", "1.2"
    t.tree.arch, t.tree.build_timestamp = "x86_64", 1
    t.tree.platforms.add("x86_64")
    tv = ti.Variant(t)
    tv.id, tv.uid, tv.name, tv.type = "Fedora", "Fedora", "Fedora", "variant"
    tv.paths.packages, tv.paths.repository = "Packages", "."
    t.variants.add(tv)
    ta = ti.Variant(t)
    ta.id, ta.uid, ta.name, ta.type = "HA", "Fedora-HA", "HA", "addon"
    tv.add(ta)
    t.images.images["x86_64"] = {"kernel": "vmlinuz"}
    t.stage2.mainimage = "LiveOS/squashfs.img"
    t.media.discnum, t.media.totaldiscs = 1, 1
    quiet(t.checksums.add, "a", "md5", "x")
    for obj in (t.header, t.release, t.base_product, t.tree, t.variants, tv, tv.paths, ta, t.images, t.stage2, t.checksums, t.media):
        quiet(obj.validate)
    text = quiet(t.dumps)
    if text:
        quiet(ti.TreeInfo().loads, text)
        for version in ("0.3", "1.0", "1.1"):
            quiet(ti.TreeInfo().loads, text.replace("version = 1.2", "version = " + version).replace("[release]", "[product]" if version == "0.3" else "[release]"))
        kept, keep = [], False
        for line in text.split("\n"):
            if line.startswith("["):
                keep = line.startswith("[general]") or line.startswith("[images-") or line.startswith("[stage2]") or line.startswith("[checksums]")
            if keep:
                kept.append(line)
        quiet(ti.TreeInfo().loads, "\n".join(kept) + "\n")
        quiet(ti.TreeInfo().loads, "\n".join(kept).replace("version = 20", "version = 20_1.2-x") + "\n")
    d = di.DiscInfo()
    d.timestamp, d.description, d.arch, d.disc_numbers = 1.5, "Fedora 20", "x86_64", ["ALL"]
    quiet(d.validate)
    text = quiet(d.dumps)
    if text:
        quiet(di.DiscInfo().loads, text)
    # shipped fixtures
    tests = os.path.join(REPO, "tests")
    for path in sorted(glob.glob(os.path.join(tests, "treeinfo", "*"))):
        quiet(ti.TreeInfo().load, path)
    for path in sorted(glob.glob(os.path.join(tests, "discinfo", "*")))[:10]:
        quiet(di.DiscInfo().load, path)
    for path in sorted(glob.glob(os.path.join(tests, "images", "*.json"))):
        quiet(im.Images().load, path)
    for path in sorted(glob.glob(os.path.join(tests, "compose*", "*", "metadata", "composeinfo.json"))):
        quiet(ci.ComposeInfo().load, path)
    quiet(lambda: productmd.compose.Compose(os.path.join(tests, "compose")).info)


CANARY = "(7)+"        # harmless as data; visible verbatim in a pattern only if the data was NOT passed through re.escape


def taint_scan():
    """put the canary into one text position of one document at a time, load it, and report every pattern handed to re by
    productmd that contains the canary verbatim: document text used as a regular expression"""
    from pbt import c19_docs
    docs = c19_docs.base_docs()
    found = []
    for name in sorted(docs):
        for leaf in c19_docs.leaves(docs[name]):
            for fn in (lambda old: old + CANARY, lambda old: CANARY):
                text, cls = c19_docs.substitute(docs[name], leaf, fn)
                before = set(seen)
                quiet(c19_docs.load, text, cls)
                for key in set(seen) - before:
                    if CANARY in key[0]:
                        found.append({"doc": name, "leaf": list(leaf), "pattern": key[0], "sites": sorted(seen[key]["sites"])})
                for key in list(seen):
                    if CANARY in key[0]:
                        del seen[key]
    return found


def main():
    install()
    if "--taint" in sys.argv:
        import productmd  # noqa
        out = taint_scan()
        sys.stdout.write(json.dumps(out))
        return
    workload()
    out = [{"pattern": e["pattern"], "flags": e["flags"], "sites": sorted(e["sites"]), "kinds": sorted(e["kinds"])} for e in seen.values()]
    out.sort(key=lambda e: (e["pattern"], e["flags"]))
    sys.stdout.write(json.dumps(out))


if __name__ == "__main__":
    main()
