"""Child interpreter for C08: python -m pbt.c08_child BATCH.json  (started with an explicit PYTHONHASHSEED).
Rebuilds every (format, description, plan) of the batch and prints the SHA-256 of each dump."""
import hashlib
import json
import sys


def main():
    from pbt import runner
    runner.import_productmd()
    from pbt.props import c08
    batch = json.load(open(sys.argv[1]))
    out = []
    for item in batch:
        try:
            text = c08.dump_of(item["format"], item["desc"], item["plan"])
            out.append(hashlib.sha256(text.encode("utf-8")).hexdigest())
        except Exception as exc:  # noqa
            out.append("ERROR %s: %s" % (type(exc).__name__, exc))
    sys.stdout.write(json.dumps(out))


if __name__ == "__main__":
    main()
