"""treeinfo: case descriptions, builder (public API only), snapshots, reference INI model, independent INI reader."""
import configparser
import copy
import io
import random

from hypothesis import strategies as st

from pbt import gen

PATH_KINDS = ["packages", "repository", "source_packages", "source_repository", "debug_packages", "debug_repository", "identity"]

# INI-representable single-line text: no leading/trailing blanks (str.strip removes every Unicode blank)
ini_text = st.one_of(
    st.sampled_from(["Fedora", "Red Hat Enterprise Linux", "100% Linux", "%(short)s", "a = b", "x: y", "#1", "; x", "[y]", "a%%b", "Spacewalk"]),
    gen.name_text,
).map(lambda s: s.strip()).filter(lambda s: len(s) > 0 and "\r" not in s and "\n" not in s)

# names that would trigger the documented RHEL/Fedora/CentOS heuristics of the pre-productmd reader are kept out where
# the legacy reader is exercised (C05 / C17)
HEURISTIC_PREFIXES = ("Red Hat Enterprise Linux", "Fedora", "CentOS", "EulerOS", "Subscription Asset Manager", "Red Hat Storage", "JBEAP")


def plain_family(name):
    return not any(name.startswith(p) for p in HEURISTIC_PREFIXES)


option_name = st.one_of(
    st.sampled_from(["kernel", "Kernel", "initrd", "boot.iso", "upgrade", "efiboot.img", "images/boot.iso", "a b", "x%y", "UPPER", "x#y", "é"]),
    st.text(st.sampled_from(list("abcXYZ019._-/+%#;[] é")), min_size=1, max_size=10),
).map(lambda s: s.strip()).filter(lambda s: len(s) > 0 and s[0] not in "#;[" and "=" not in s and ":" not in s)

ini_path = st.one_of(gen.rel_path.filter(lambda s: s.strip() == s), st.sampled_from(["Packages", ".", "repo", "src pkgs", "debug/tree", "cert.pem", "a=b/c", "%s/x"]))
ti_version = st.one_of(gen.numeric_version.filter(lambda v: all(p.isdigit() and p for p in v.split("."))),
                       gen.freeform_version.map(lambda s: s.strip()).filter(lambda s: len(s) > 0 and not s[0].isdigit()))
platform_name = st.one_of(st.sampled_from(["xen", "x86_64", "i386", "ppc64le", "efi", "Xen", "s390x", "xen-pv", "x86_64-efi", "a-b-c", "xen-x86_64", "pv-i386"]),
                          st.from_regex(r"[A-Za-z0-9_]{1,6}(-[A-Za-z0-9_]{1,4})?", fullmatch=True))
TI_ID_POOL = ["Server", "Client", "optional", "HA", "RS", "LB", "A", "b", "Z9", "Workstation"]
ti_id = st.one_of(st.sampled_from(TI_ID_POOL), st.from_regex(r"[A-Za-z0-9]{1,6}", fullmatch=True))
checksum_type = st.sampled_from(["md5", "sha1", "sha256", "sha512", "SHA256", "blake2b"])
checksum_value = st.one_of(gen.hexdigest, st.text(st.sampled_from(list("0123456789abcdefXYZ")), min_size=1, max_size=20))


@st.composite
def ti_paths(draw):
    kinds = draw(gen.subsets(PATH_KINDS))
    return {k: draw(st.one_of(ini_path, ini_path, ini_path, ini_path, st.just(""))) for k in kinds}      # "" = the tree root itself (written as 'packages = ')


@st.composite
def ti_node(draw, parent_uid, vid, depth, max_depth, types):
    node = {"id": vid, "uid": vid if parent_uid is None else "%s-%s" % (parent_uid, vid), "name": draw(ini_text),
            "type": draw(st.sampled_from(types)), "paths": draw(ti_paths()), "children": []}
    if depth < max_depth:
        n = draw(st.sampled_from([0, 0, 1, 1, 2, 3]))
        for kid in draw(st.lists(ti_id, min_size=n, max_size=n, unique=True)):
            node["children"].append(draw(ti_node(node["uid"], kid, depth + 1, max_depth, gen.TI_VARIANT_TYPES)))
    return node


def all_nodes(nodes):
    for n in nodes:
        yield n
        for m in all_nodes(n["children"]):
            yield m


@st.composite
def tree_desc(draw, max_top=3, max_depth=3, allow_empty=False, family_filter=None, timestamps=None):
    name = draw(ini_text.filter(family_filter) if family_filter else ini_text)
    release = {"name": name, "short": draw(st.one_of(ini_text, st.just(""))), "version": draw(ti_version)}
    layered = draw(st.booleans())
    bp = {"name": draw(ini_text), "short": draw(ini_text), "version": draw(ti_version)} if layered else None
    arch = draw(st.one_of(gen.arch_pool, st.sampled_from(["src", "src", "x86_64"])))
    platforms = draw(st.lists(platform_name, max_size=3, unique=True))
    # KF-C04-platform-arch-suffix: a platform '<x>-<tree arch>' is written as [images-<x>-<arch>] and read back as platform '<x>';
    # excluded by construction (the name is kept dashed, its tail is changed)
    # (for every arch the tree can have at some point of its life: the checks change the arch of a written tree)
    platforms = sorted(set(p + "_" if any(p.endswith("-" + a) for a in gen.ARCH_POOL + ["src", arch]) else p for p in platforms))
    ts = draw(timestamps if timestamps is not None else st.one_of(st.integers(1, 2 ** 31), st.integers(-5, -1), st.integers(2 ** 31, 2 ** 40), st.just(1386857206),
                                                                 st.sampled_from([2 ** 53 + 1, 1758844800123456789, 2 ** 63 - 1, 10 ** 20 + 7, -(2 ** 53) - 1, -1758844800123456789]), st.integers(2 ** 53, 2 ** 70),
                                                                 st.integers(-(2 ** 70), -(2 ** 53))))
    ntop = draw(st.integers(1, max_top))
    tops = []
    for vid in draw(st.lists(ti_id, min_size=ntop, max_size=ntop, unique=True)):
        tops.append(draw(ti_node(None, vid, 1, max_depth, ["variant", "variant", "optional"])))
    if draw(st.integers(0, 2)) == 0:
        # documented special case: top-level variant living in its own tree ("Server-optional", id "optional"),
        # stored under its UID as the loader does
        kind = draw(st.sampled_from(["optional", "variant"]))
        if kind == "optional":
            head = draw(st.sampled_from(["Server", "Client", "A-B"]))
            node = draw(ti_node(None, "optional", 1, 1, ["optional"]))
            node["uid"] = "%s-%s" % (head, draw(st.sampled_from(["optional", "opt2"])))
            node["id"] = node["uid"].rsplit("-", 1)[1]
        else:
            parts = draw(st.lists(st.sampled_from(["Server", "Tools", "X", "y1"]), min_size=2, max_size=3))
            node = draw(ti_node(None, "".join(parts), 1, 1, ["variant"]))
            node["uid"] = "-".join(parts)
        if node["uid"] not in set(n["uid"] for n in all_nodes(tops)):
            tops.append(node)
    images = {}
    plat_pool = sorted(set(platforms))
    if plat_pool and draw(st.booleans()):
        for plat in draw(gen.subsets(plat_pool, min_size=1)):
            images[plat] = draw(st.dictionaries(option_name, ini_path, min_size=0, max_size=4))
    stage2 = None
    if draw(st.booleans()):
        stage2 = {"mainimage": draw(st.one_of(st.none(), ini_path)), "instimage": draw(st.one_of(st.none(), ini_path))}
    media = None
    if draw(st.integers(0, 2)) == 0:
        total = draw(st.integers(1, 9))
        media = {"discnum": draw(st.integers(0, total)), "totaldiscs": total}      # discs are counted from 0 by some producers
        if media["discnum"] > 0 and draw(st.integers(0, 9)) == 0:
            media["totaldiscs"] = 0                                                   # "of an unknown number"
    checksums = draw(st.dictionaries(st.one_of(option_name, ini_path.filter(lambda p: "=" not in p and ":" not in p)).map(_norm_rel).filter(
        lambda p: p and p[0] not in "#;[/" and p.strip() == p), st.tuples(checksum_type, checksum_value).map(list), max_size=4)) if draw(st.booleans()) else {}
    if draw(st.integers(0, 3)) == 0:
        # names that share a prefix and go on with '/' in one case and with a character sorting below '/' in the other
        for key in draw(gen.subsets(["images/boot.iso", "images-extra/data.img", "images.old/boot.iso", "repodata/repomd.xml", "repodata.old/repomd.xml", "a b/c", "a/b", "a+b/c"], min_size=2)):
            checksums.setdefault(key, ["sha256", "ef" * 32])
    if draw(st.integers(0, 3)) == 0:
        # entries that did not go through add(): the key is whatever spelling the producer used
        raw = draw(st.sampled_from(["./images/boot.iso", "images//boot.iso", "a/../b", "images/./boot.iso", "repodata/"]))
        checksums[raw] = ["sha256", "ab" * 32]
        if draw(st.booleans()):
            checksums[_norm_rel(raw)] = ["sha256", "cd" * 32]       # ... next to the normalised spelling of the same location: two entries
    desc = {"release": release, "layered": layered, "base_product": bp,
            "tree": {"arch": arch, "build_timestamp": ts, "platforms": platforms},
            "variants": tops, "images": images, "stage2": stage2, "media": media, "checksums": checksums}
    uids = sorted(n["uid"] for n in tops)
    desc["main_variant"] = draw(st.one_of(st.none(), st.sampled_from(uids)))
    if draw(st.integers(0, 5)) == 0:
        # variant objects created for ANOTHER tree (a template, the tree of another arch) and then added to this one:
        # what is written is decided by the tree being written
        desc["variants_made_for"] = {"arch": draw(st.sampled_from(["src", None, "x86_64", "ppc64le"])), "timestamp": 7}
    return desc


def _norm_rel(path):
    """reference normalisation of a relative path (collapses //, ./ and x/../), independent of os.path"""
    out = []
    for comp in path.split("/"):
        if comp in ("", "."):
            continue
        if comp == ".." and out and out[-1] != "..":
            out.pop()
        else:
            out.append(comp)
    return "/".join(out) or "."


# ---------------------------------------------------------------------------------------------------------------
# builder

def _shuffled(items, rnd):
    items = list(items)
    if rnd is not None:
        rnd.shuffle(items)
    return items


def build_ti_variant(ti, node, rnd=None, made_for=None):
    from productmd.treeinfo import Variant
    v = Variant(made_for if made_for is not None else ti)
    v.id, v.uid, v.name, v.type = node["id"], node["uid"], node["name"], node["type"]
    for kind in _shuffled(sorted(node["paths"]), rnd):
        setattr(v.paths, kind, node["paths"][kind])
    return v


def attach(ti, container, nodes, rnd, top, made_for=None, id_keys=False):
    for node in _shuffled(nodes, rnd):
        v = build_ti_variant(ti, node, rnd, made_for)
        if top and id_keys:
            container.add(v)                # the plain call of the docstrings: a dashed top-level variant is held under its id
        elif top:
            # top-level variants are stored under their UID (what the loader does; identical to the id in the common case)
            container.add(v, variant_id=node["uid"]) if node["uid"] != node["id"] else container.add(v)
        else:
            container.add(v)
        attach(ti, v, node["children"], rnd, False, made_for)


def build_ti(desc, plan=0):
    from productmd.treeinfo import TreeInfo
    rnd = random.Random(plan) if plan else None
    ti = TreeInfo()
    for step in _shuffled(["release", "tree", "variants", "images", "stage2", "media", "checksums"], rnd):
        if step == "release":
            r = desc["release"]
            ti.release.name, ti.release.short, ti.release.version = r["name"], r["short"], r["version"]
            ti.release.is_layered = desc["layered"]
            if desc["layered"]:
                b = desc["base_product"]
                ti.base_product.name, ti.base_product.short, ti.base_product.version = b["name"], b["short"], b["version"]
        elif step == "tree":
            ti.tree.arch = desc["tree"]["arch"]
            ti.tree.build_timestamp = desc["tree"]["build_timestamp"]
            for p in _shuffled(desc["tree"]["platforms"], rnd):
                ti.tree.platforms.add(p)
        elif step == "variants":
            made_for = None
            if desc.get("variants_made_for"):
                made_for = TreeInfo()
                made_for.tree.arch, made_for.tree.build_timestamp = desc["variants_made_for"]["arch"], desc["variants_made_for"]["timestamp"]
            attach(ti, ti.variants, desc["variants"], rnd, True, made_for, desc.get("top_level_keys") == "id")
        elif step == "images":
            for plat in _shuffled(sorted(desc["images"]), rnd):
                table = ti.images.images.setdefault(plat, {})
                for name in _shuffled(sorted(desc["images"][plat]), rnd):
                    table[name] = desc["images"][plat][name]
        elif step == "stage2" and desc["stage2"]:
            ti.stage2.mainimage = desc["stage2"]["mainimage"]
            ti.stage2.instimage = desc["stage2"]["instimage"]
        elif step == "media" and desc["media"]:
            ti.media.discnum = desc["media"]["discnum"]
            ti.media.totaldiscs = desc["media"]["totaldiscs"]
        elif step == "checksums":
            for path in _shuffled(sorted(desc["checksums"]), rnd):
                ctype, cvalue = desc["checksums"][path]
                if _norm_rel(path) == path:
                    ti.checksums.add(path, ctype, cvalue)
                else:
                    ti.checksums.checksums[path] = (ctype, cvalue)      # not normalised: assigned directly, kept verbatim
    return ti


def modify_ti(desc, ti, k=0):
    """a valid change of an EXISTING object through its public attributes (an object that is written, changed and written again);
    returns the description of what the object holds afterwards"""
    d = copy.deepcopy(desc)
    arches = [a for a in ("x86_64", "i386", "ppc64le", "aarch64", "s390x") if a != d["tree"]["arch"]]
    d["tree"]["arch"] = arches[k % len(arches)]
    d["tree"]["build_timestamp"] = d["tree"]["build_timestamp"] + (2 if d["tree"]["build_timestamp"] == -1 else 1)      # 0 is refused as blank
    ti.tree.arch, ti.tree.build_timestamp = d["tree"]["arch"], d["tree"]["build_timestamp"]
    d["release"]["name"] = d["release"]["name"] + "x"
    ti.release.name = d["release"]["name"]
    tops = sorted(n["uid"] for n in d["variants"])
    if len(tops) >= 2 and "0new" not in tops and not any(n["id"] == "0new" for n in d["variants"]):
        # one top-level variant goes, another one (sorting first) comes: the count stays the same
        gone = tops[-1]
        del ti.variants[gone]
        d["variants"] = [n for n in d["variants"] if n["uid"] != gone]
        new = {"id": "0new", "uid": "0new", "name": "New", "type": "variant", "paths": {"packages": "p0", "repository": "r0"}, "children": []}
        d["variants"].append(new)
        attach(ti, ti.variants, [new], None, True)
        if d.get("main_variant") == gone:
            d["main_variant"] = None
    return d


def dump_text(ti, main_variant=None):
    out = io.StringIO()
    ti.dump(out, main_variant=main_variant)
    return out.getvalue()


# ---------------------------------------------------------------------------------------------------------------
# snapshots

def expected_forest(nodes, parent_uid=None, top=True):
    out = {}
    for n in nodes:
        key = n["uid"] if top else n["id"]
        out[key] = {"id": n["id"], "uid": n["uid"], "name": n["name"], "type": n["type"],
                    "paths": {k: n["paths"].get(k) for k in PATH_KINDS}, "parent": parent_uid,
                    "children": expected_forest(n["children"], n["uid"], False)}
    return out


def expected_snapshot(desc):
    r = desc["release"]
    t = desc["tree"]
    snap = {"release": {"name": r["name"], "short": r["short"], "version": r["version"], "is_layered": desc["layered"]},
            "tree": {"arch": t["arch"], "build_timestamp": int(t["build_timestamp"]), "platforms": sorted(set(t["platforms"]) | {t["arch"]})},
            "variants": expected_forest(desc["variants"]),
            "images": {p: dict(tbl) for p, tbl in desc["images"].items()},
            "stage2": {"mainimage": (desc["stage2"] or {}).get("mainimage") or None, "instimage": (desc["stage2"] or {}).get("instimage") or None},
            "media": {"discnum": (desc["media"] or {}).get("discnum"), "totaldiscs": (desc["media"] or {}).get("totaldiscs")},
            "checksums": {p: list(v) for p, v in desc["checksums"].items()}}
    if desc["layered"]:
        b = desc["base_product"]
        snap["base_product"] = {"name": b["name"], "short": b["short"], "version": b["version"]}
    return snap


def snap_forest(container):
    out = {}
    for key, v in container.variants.items():
        out[key] = {"id": v.id, "uid": v.uid, "name": v.name, "type": v.type,
                    "paths": {k: getattr(v.paths, k) for k in PATH_KINDS},
                    "parent": v.parent.uid if v.parent is not None else None, "children": snap_forest(v)}
    return out


def snapshot(ti):
    snap = {"release": {"name": ti.release.name, "short": ti.release.short, "version": ti.release.version, "is_layered": ti.release.is_layered},
            "tree": {"arch": ti.tree.arch, "build_timestamp": ti.tree.build_timestamp, "platforms": sorted(ti.tree.platforms)},
            "variants": snap_forest(ti.variants),
            "images": {p: dict(tbl) for p, tbl in ti.images.images.items()},
            "stage2": {"mainimage": ti.stage2.mainimage, "instimage": ti.stage2.instimage},
            "media": {"discnum": ti.media.discnum, "totaldiscs": ti.media.totaldiscs},
            "checksums": {p: list(v) for p, v in ti.checksums.checksums.items()}}
    if ti.release.is_layered:
        b = ti.base_product
        snap["base_product"] = {"name": b.name, "short": b.short, "version": b.version}
    return snap


# ---------------------------------------------------------------------------------------------------------------
# reference INI model (doc/treeinfo-1.1.rst + the [general] compatibility section described by C17)

def section_name(node):
    return ("addon-" if node["type"] == "addon" else "variant-") + node["uid"]


def expected_general(desc, main_variant=None):
    r, t = desc["release"], desc["tree"]
    name_of = (lambda n: n["id"]) if desc.get("top_level_keys") == "id" else (lambda n: n["uid"])      # the name under which the tree holds a top-level variant
    keys = sorted(name_of(n) for n in desc["variants"])
    gen_sec = {"name": "%s %s" % (r["name"], r["version"]), "family": r["name"], "version": r["version"], "arch": t["arch"],
               "platforms": ",".join(sorted(set(t["platforms"]) | {t["arch"]})), "timestamp": str(int(t["build_timestamp"])),
               "variants": ",".join(keys)}
    if keys:
        main = main_variant if main_variant is not None else keys[0]
        node = [n for n in desc["variants"] if name_of(n) == main][0]
        gen_sec["variant"] = main
        p = node["paths"]
        if p.get("packages") is not None:
            gen_sec["packagedir"] = p["packages"]
        elif t["arch"] == "src" and p.get("source_packages") is not None:
            gen_sec["packagedir"] = p["source_packages"]
        if p.get("repository") is not None:
            gen_sec["repository"] = p["repository"]
        elif t["arch"] == "src" and p.get("source_repository") is not None:
            gen_sec["repository"] = p["source_repository"]
    return gen_sec


def expected_ini(desc, main_variant=None):
    r, t = desc["release"], desc["tree"]
    ini = {"header": {"type": "productmd.treeinfo", "version": "1.2"},
           "release": {"name": r["name"], "short": r["short"], "version": r["version"]},
           "tree": {"arch": t["arch"], "build_timestamp": str(t["build_timestamp"]),
                    "platforms": ",".join(sorted(set(t["platforms"]) | {t["arch"]})),
                    "variants": ",".join(sorted(n["uid"] for n in desc["variants"]))}}
    if desc["layered"]:
        ini["release"]["is_layered"] = "true"
        b = desc["base_product"]
        ini["base_product"] = {"name": b["name"], "short": b["short"], "version": b["version"]}

    def walk(nodes, parent):
        for n in nodes:
            sec = {"id": n["id"], "uid": n["uid"], "name": n["name"], "type": n["type"]}
            sec.update(n["paths"])
            if parent is not None:
                sec["parent"] = parent["uid"]
            if n["children"]:
                sec["addons"] = ",".join(sorted(k["uid"] for k in n["children"]))
            ini[section_name(n)] = sec
            walk(n["children"], n)
    walk(desc["variants"], None)
    if desc["checksums"]:
        ini["checksums"] = {p: "%s:%s" % tuple(v) for p, v in desc["checksums"].items()}
    for plat, table in desc["images"].items():
        ini["images-%s" % plat] = dict(table)
    s2 = desc["stage2"] or {}
    if s2.get("mainimage") or s2.get("instimage"):
        ini["stage2"] = {k: v for k, v in s2.items() if v}
    if desc["media"]:
        ini["media"] = {"discnum": str(desc["media"]["discnum"]), "totaldiscs": str(desc["media"]["totaldiscs"])}
    ini["general"] = expected_general(desc, main_variant)
    return ini


def read_ini(text):
    """independent reading of the file with the stdlib parser: case-preserving, no interpolation"""
    p = configparser.RawConfigParser(strict=True)
    p.optionxform = str
    p.read_string(text)
    return {sec: dict(p.items(sec)) for sec in p.sections()}


def scan_order(text):
    """sections and the options inside each, in file order (line scanner; no parser involved)"""
    sections = []
    for line in text.split("\n"):
        if line.startswith("["):
            sections.append((line[1:line.index("]")], []))
        elif line and not line[0].isspace() and sections:
            key = line.split(" = ", 1)[0] if " = " in line else line.rstrip(" =")
            sections[-1][1].append(key)
    return sections


def is_nontrivial(desc):
    return bool(any(n["children"] for n in all_nodes(desc["variants"])) or len(desc["variants"]) >= 2
                or (desc["images"] and desc["checksums"]) or desc["layered"] or desc["tree"]["arch"] == "src")


def labels(desc):
    out = []
    depth = [0]

    def d(ns, k):
        for n in ns:
            depth[0] = max(depth[0], k)
            d(n["children"], k + 1)
    d(desc["variants"], 1)
    out.append("depth%d" % depth[0])
    kids = [n for t in desc["variants"] for n in all_nodes(t["children"])]
    for t in sorted(set(k["type"] for k in kids)):
        out.append("child-type:" + t)
    if any(n["uid"] != n["id"] for n in desc["variants"]):
        out.append("dashed-top-uid")
    if len(set(_norm_rel(k) for k in desc["checksums"])) < len(desc["checksums"]):
        out.append("two-spellings-of-one-checksum-path")
    for k in ("layered", ):
        if desc[k]:
            out.append(k)
    if desc["tree"]["arch"] == "src":
        out.append("src-tree")
    for k in ("images", "stage2", "media", "checksums"):
        if desc[k]:
            out.append(k)
    if len(desc["variants"]) >= 2:
        out.append(">=2-top-variants")
    if any("-" in p for p in desc["images"]):
        out.append("images-for-dashed-platform")
    return out
