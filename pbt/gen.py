"""Shared input domains (DESIGN.md section 3).  Everything here yields plain JSON-able values."""
from hypothesis import strategies as st

# ---------------------------------------------------------------------------------------------------------
# text

# single-line, JSON-safe human readable text: any Unicode except control chars, surrogates, line/paragraph separators
_NAME_ALPHABET = st.characters(blacklist_categories=("Cc", "Cs", "Zl", "Zp"))
_SPICY = st.sampled_from(list(" %=#;:[]\"'\\/-_.@~^+!?*()") + ["é", "ß", "日", "本", "\U0001F600", " ", "​"])

name_text = st.one_of(
    st.sampled_from(["Fedora", "Red Hat Enterprise Linux", "Spacewalk", "My Product", "Server", "x"]),
    st.text(st.one_of(st.sampled_from(list("abcXYZ019")), _SPICY, _NAME_ALPHABET), min_size=1, max_size=12),
)

_DASHED_SHORT = st.builds(
    lambda head, segs: "-".join([head] + segs),
    st.from_regex(r"[A-Za-z][A-Za-z0-9_]{0,5}", fullmatch=True),
    st.lists(st.from_regex(r"[A-Za-z0-9]{1,4}", fullmatch=True), max_size=2),
)
short_text = st.one_of(
    st.sampled_from(["F", "RHEL", "rhel", "Fedora", "f", "SAT", "Foo-Bar"]),
    _DASHED_SHORT,
    st.text(st.one_of(st.sampled_from(list("abcXYZ019")), _SPICY, _NAME_ALPHABET), min_size=1, max_size=8),
)

numeric_version = st.one_of(
    st.sampled_from(["20", "7.0", "7.2", "1.0", "21", "0", "007", "5.11", "1.2.3.4", "Rawhide"]).filter(lambda v: v[0].isdigit()),
    st.lists(st.integers(0, 9999).map(str) | st.sampled_from(["00", "01", "20200101", "123456789"]), min_size=1, max_size=4).map(".".join),
)
freeform_version = st.one_of(
    st.sampled_from(["Rawhide", "rawhide", "devel", "Branched", "v1", "Beta.1"]),
    st.builds(lambda a, b: a + b, st.sampled_from(list("abRvX_~+")), st.text(st.sampled_from(list("abcXYZ0123456789._+~")), max_size=8)),
)
version_text = st.one_of(numeric_version, freeform_version)

RELEASE_TYPES = ["fast", "ga", "updates", "updates-testing", "eus", "aus", "els", "tus", "e4s"]
COMPOSE_TYPES = ["test", "ci", "nightly", "production", "development"]
COMPOSE_SUFFIX = {"production": "", "ci": ".ci", "nightly": ".n", "test": ".t", "development": ".d"}
LABEL_NAMES = ["EA", "DevelPhaseExit", "InternalAlpha", "Alpha", "InternalSnapshot", "Beta", "Snapshot", "RC",
               "Update", "SecurityFix"]
CI_VARIANT_TYPES = ["variant", "optional", "addon", "layered-product"]
TI_VARIANT_TYPES = ["variant", "optional", "addon"]

# the library's architecture table as documented in common.py (copied, not imported: the oracle must not move with the code)
RPM_ARCHES = [
    "aarch64", "alpha", "alphaev4", "alphaev45", "alphaev5", "alphaev56", "alphaev6", "alphaev67", "alphaev68",
    "alphaev7", "alphapca56", "amd64", "arm64", "armhfp", "armv5tejl", "armv5tel", "armv5tl", "armv6hl",
    "armv6l", "armv7hl", "armv7hnl", "armv7l", "armv8hl", "armv8l", "athlon", "geode", "i386", "i486", "i586",
    "i686", "ia32e", "ia64", "loongarch64", "mips", "mips64", "mips64el", "mipsel", "ppc", "ppc64",
    "ppc64iseries", "ppc64le", "ppc64p7", "ppc64pseries", "riscv128", "riscv32", "riscv64", "s390", "s390x",
    "sh3", "sh4", "sh4a", "sparc", "sparc64", "sparc64v", "sparcv8", "sparcv9", "sparcv9v", "x86_64",
    "src", "nosrc", "noarch",
]
BINARY_ARCHES = [a for a in RPM_ARCHES if a not in ("src", "nosrc")]
ARCH_POOL = ["x86_64", "i386", "ppc64le", "aarch64", "s390x", "armhfp"]

arch_pool = st.sampled_from(ARCH_POOL)
binary_arch = st.one_of(arch_pool, st.sampled_from(BINARY_ARCHES))
bad_arch = st.sampled_from(["src", "nosrc", "", "X86_64", "x86-64", "foo", "i387", "SRC", " x86_64", "x86_64 "])

date8 = st.one_of(st.sampled_from(["20160622", "00000000", "99999999", "20200101"]), st.from_regex(r"[0-9]{8}", fullmatch=True))
respin = st.one_of(st.integers(0, 12), st.integers(0, 10 ** 7 - 1))
label = st.one_of(st.none(), st.builds(lambda n, a, b: "%s-%d.%d" % (n, a, b), st.sampled_from(LABEL_NAMES),
                                       st.integers(0, 120), st.integers(0, 120)))

rel_path = st.one_of(
    st.sampled_from(["Server/x86_64/os", "Packages", ".", "a/b/c", "compose/Server/x86_64/iso/boot.iso"]),
    st.lists(st.text(st.sampled_from(list("abcXYZ019._-+ ")), min_size=1, max_size=6).filter(lambda s: s.strip() == s),
             min_size=1, max_size=4).map("/".join),
)

hex32 = st.text(st.sampled_from(list("0123456789abcdef")), min_size=32, max_size=32)
hexdigest = st.sampled_from([32, 40, 64]).flatmap(lambda n: st.text(st.sampled_from(list("0123456789abcdef")), min_size=n, max_size=n))


@st.composite
def release_desc(draw, with_type=True, with_internal=True):
    d = {"name": draw(name_text), "short": draw(short_text), "version": draw(version_text)}
    if with_type:
        d["type"] = draw(st.sampled_from(RELEASE_TYPES))
    if with_internal:
        d["internal"] = draw(st.booleans())
    return d


@st.composite
def compose_section_desc(draw, id_prefix=None):
    """compose id/type/date/respin/label/final; id is built the documented way: <prefix>-<date><suffix>.<respin>"""
    ctype = draw(st.sampled_from(COMPOSE_TYPES))
    date = draw(date8)
    rsp = draw(respin)
    prefix = id_prefix if id_prefix is not None else draw(st.sampled_from(["F-22", "RHEL-7.2", "Foo-Bar-1.0-updates", "x-Rawhide"]))
    cid = "%s-%s%s.%d" % (prefix, date, COMPOSE_SUFFIX[ctype], rsp)
    if draw(st.integers(0, 5)) == 0:
        # the id is free-form as long as it carries an 8-digit date: tails that merely LOOK like a type suffix or a respin are legal
        cid = "%s-%s%s" % (prefix, date, draw(st.sampled_from([".hotfix.2", ".production.0", ".x", "-Server", ".n", "", ".1.2.3", ".nightly.0.extra", " (final)", ".N.1"])))
    return {"id": cid, "type": ctype, "date": date, "respin": rsp, "label": draw(label), "final": draw(st.booleans())}


# a reader object with a past: looked at, or having refused a document, before it reads the real one
reader_past = st.sampled_from(["fresh", "fresh", "peeked", "refused-first", "peeked-and-refused", "filled-before"])


def give_past(reader, past):
    if past in ("peeked", "peeked-and-refused"):
        try:
            reader.header.version_tuple
        except Exception:  # noqa
            pass
    if past == "filled-before":
        # an object somebody described by hand (another release, another compose) before it was told to read a document:
        # what is read replaces what was there
        for section, values in (("release", {"name": "Other OS", "short": "other", "version": "9", "type": "ga"}),
                                ("compose", {"id": "other-9-19990101.t.7", "type": "test", "date": "19990101", "respin": 7, "label": None})):
            obj = getattr(reader, section, None)
            if obj is not None:
                for k, v in values.items():
                    if hasattr(obj, k):
                        setattr(obj, k, v)
    if past in ("refused-first", "peeked-and-refused"):
        # a document that is refused before anything of it is filed (header only; both syntaxes)
        for text in ('{"header": {"version": "0.1"}, "payload": {}}', "[header]\nversion = 0.1\n"):
            try:
                reader.loads(text)
            except Exception:  # noqa
                pass
            try:
                reader.header.version_tuple
            except Exception:  # noqa
                pass
    return reader


PASTS = ["fresh", "peeked", "refused-first", "fresh", "peeked-and-refused", "fresh", "filled-before"]


def past_of(text):
    """which past the reader of this text gets: a pure function of the text"""
    return PASTS[(len(text) + text.count("a")) % len(PASTS)]


def subsets(items, min_size=0, max_size=None):
    return st.lists(st.sampled_from(list(items)), min_size=min_size, max_size=max_size, unique=True)


def permutation_of(n):
    return st.permutations(list(range(n)))
