"""Child interpreter for C18: python -m pbt.c18_child   (started with LC_ALL=C PYTHONUTF8=0 PYTHONCOERCECLOCALE=0)
In a process whose locale encoding cannot encode non-ASCII text, trees and disc descriptions carrying such text are dumped to
an existing and to an absent destination.  Whether such a dump succeeds is not the question; if it FAILS, the destination is as
it was.  Prints a JSON list of findings."""
import json
import locale
import os
import shutil
import sys
import tempfile


def main():
    from pbt import runner
    runner.import_productmd()
    from pbt.props import c06
    import productmd.discinfo
    findings, trials = [], 0
    texts = ["café", "日本", "naïve – dash", "\U0001F600"]
    tmp = tempfile.mkdtemp(prefix="c18c-")
    try:
        dest = os.path.join(tmp, "metadata")
        for text in texts:
            objs = []
            ti = c06.build("treeinfo", c06.rich("treeinfo"))
            good_ti = ti.dumps()
            ti.release.name = text
            objs.append(("treeinfo release.name", ti, good_ti))
            ti2 = c06.build("treeinfo", c06.rich("treeinfo"))
            for v in ti2.variants.variants.values():
                v.name = text
            objs.append(("treeinfo variant.name", ti2, good_ti))
            di = productmd.discinfo.DiscInfo()
            di.timestamp, di.description, di.arch, di.disc_numbers = 1.5, "Fedora 20", "x86_64", ["ALL"]
            good_di = di.dumps()
            di.description = text
            objs.append(("discinfo description", di, good_di))
            for label, obj, good in objs:
                for existing in (True, False):
                    if existing:
                        with open(dest, "wb") as fo:
                            fo.write(good.encode("ascii"))
                    elif os.path.exists(dest):
                        os.unlink(dest)
                    trials += 1
                    try:
                        obj.dump(dest)
                    except Exception as exc:  # noqa
                        if existing and not os.path.exists(dest):
                            findings.append({"bucket": "destination-removed-by-failed-dump", "message": "%s = %r in a process with locale encoding %s: dump raised %s and the destination is gone" % (
                                label, text, locale.getpreferredencoding(False), type(exc).__name__)})
                        elif existing:
                            with open(dest, "rb") as fo:
                                now = fo.read()
                            if now != good.encode("ascii"):
                                findings.append({"bucket": "destination-changed-by-failed-dump", "message": "%s = %r in a process with locale encoding %s: dump raised %s and the destination went from %d to %d bytes" % (
                                    label, text, locale.getpreferredencoding(False), type(exc).__name__, len(good), len(now))})
                        elif os.path.exists(dest):
                            findings.append({"bucket": "file-created-by-failed-dump", "message": "%s = %r in a process with locale encoding %s: dump raised %s and left a file of %d bytes" % (
                                label, text, locale.getpreferredencoding(False), type(exc).__name__, os.path.getsize(dest))})
    finally:
        shutil.rmtree(tmp, ignore_errors=True)
    sys.stdout.write(json.dumps({"encoding": locale.getpreferredencoding(False), "trials": trials, "findings": findings[:3]}))


if __name__ == "__main__":
    main()
