"""Coverage-guided campaign (atheris / libFuzzer) over the metadata readers, thorough tier of C07.

    python -m pbt.fuzz_c07 OUTDIR -runs=N -seed=S [corpus dir]

The fuzzer's bytes are decoded (FuzzedDataProvider) into: a base document (one valid current-version document per format,
written by the library at start-up from fixed rich descriptions and a few generated ones) and 1-3 STRUCTURED mutations (delete /
replace by a value from a small pool / copy another node) at fuzzer-chosen JSON paths or INI options.  The oracle lives inside
the target (C07's metamorphic relation): IF the load succeeds THEN dumps() succeeds, its reload succeeds and the second dump is
byte-identical.  productmd is instrumented for coverage, so the search is guided towards reader branches.  A violation is
written to OUTDIR/violation.json (the mutated text) and the process exits with status 77."""
import json
import os
import sys


def main():
    outdir = sys.argv[1]
    argv = [sys.argv[0]] + sys.argv[2:]
    from pbt import runner
    runner.import_productmd()
    import atheris
    with atheris.instrument_imports(include=["productmd"]):
        for name in [m for m in sys.modules if m == "productmd" or m.startswith("productmd.")]:
            del sys.modules[name]
        import productmd.common, productmd.composeinfo, productmd.images, productmd.rpms, productmd.modules  # noqa
        import productmd.extra_files, productmd.treeinfo, productmd.discinfo  # noqa
    from pbt.props import c06, c07
    from pbt import ti as tim

    bases = []
    for fmt in c06.FORMATS:
        bases.append((fmt, c07.valid_text(fmt, c06.rich(fmt))))
    stats = {"execs": 0, "loaded": 0}

    def one_input(data):
        fdp = atheris.FuzzedDataProvider(data)
        fmt, text = bases[fdp.ConsumeIntInRange(0, len(bases) - 1)]
        n = fdp.ConsumeIntInRange(1, 3)
        version_touched = False
        try:
            for _ in range(n):
                where, how, other = fdp.ConsumeIntInRange(0, 1 << 16), fdp.ConsumeIntInRange(0, len(c07.REPLACEMENTS) + 3), fdp.ConsumeIntInRange(0, 1 << 16)
                text = c07.mutate(fmt, text, where, how, other)
        except Exception:  # noqa  (mutation no longer applicable to the mutated structure)
            return
        stats["execs"] += 1
        if stats["execs"] % 500 == 0:
            write_stats()       # libFuzzer ends the process itself: atexit handlers do not run
        if fmt == "images":
            # KF-C05: below 1.1 identity is not enforced; a multi-mutation can build exactly that recorded finding
            try:
                if json.loads(text)["header"]["version"] in ("1.0", "0.0", "0.1"):
                    return
            except Exception:  # noqa
                pass
        cls = c07.loader(fmt)
        obj = cls()
        try:
            obj.loads(text)
        except Exception:  # noqa  (rejected)
            return
        stats["loaded"] += 1
        dump = (lambda o: tim.dump_text(o, None)) if fmt == "treeinfo" else (lambda o: o.dumps())
        try:
            first = dump(obj)
        except Exception as exc:  # noqa
            fail(outdir, fmt, text, "loaded-object-cannot-be-written", "%s: %s" % (type(exc).__name__, exc))
        # C07's letter: what a successful load returns satisfies what writing enforces, i.e. it can be written.  (Whether that
        # file can be re-read is C04/C05's question for VALID content; multi-mutated garbage such as a pre-productmd
        # '[general] variant = x86_64,xen' - a UID containing the list separator - is outside their domain, so the
        # coverage-guided campaign does not assert it; the single-mutation Hypothesis sub-check still does.)
        stats["written"] = stats.get("written", 0) + 1

    def fail(outdir, fmt, text, bucket, message):
        with open(os.path.join(outdir, "violation.json"), "w") as fo:
            json.dump({"format": fmt, "text": text, "bucket": bucket, "message": message}, fo)
        write_stats()
        os._exit(77)

    def write_stats():
        with open(os.path.join(outdir, "stats.json"), "w") as fo:
            json.dump(stats, fo)

    atheris.Setup(argv, one_input)
    atheris.Fuzz()


if __name__ == "__main__":
    main()
