"""After a case is finished, every mutable container reachable from the objects it used is modified IN PLACE.  The objects
are garbage afterwards, so this changes nothing - unless the library shares state between objects or calls (class-level
mutable defaults, module-level constants handed out by reference, caches returning their own entries).  In that case later
cases in the same process see the poison and fail; the runner reports such order-dependent failures with the preceding cases."""

POISON = "__poison__"


def poison(root, depth=0, seen=None):
    from productmd.common import MetadataBase
    seen = seen if seen is not None else set()
    if id(root) in seen or depth > 12:
        return
    seen.add(id(root))
    if isinstance(root, MetadataBase):
        for name, value in list(vars(root).items()):
            if name in ("_metadata", "parent", "_variant"):
                continue
            poison(value, depth + 1, seen)
    elif isinstance(root, dict):
        for v in list(root.values()):
            poison(v, depth + 1, seen)
        try:
            root[POISON] = POISON
        except Exception:  # noqa
            pass
    elif isinstance(root, list):
        for v in list(root):
            poison(v, depth + 1, seen)
        root.append(POISON)
    elif isinstance(root, set):
        for v in list(root):
            poison(v, depth + 1, seen)
        root.add(POISON)
