"""C19 Validation and parsing time grows polynomially with input length."""
import io
import itertools
import json
import os
import random
import re
import signal
import subprocess
import sys
import time

from pbt.runner import Violation, check, HarnessError, VERIF_DIR, REPO, derive_seed, case_hash

PROPERTY = "C19"
LEVEL = "exploration"
RULE = ("(1) inventory: in a fresh interpreter the re module is wrapped BEFORE productmd is imported and a touch-everything "
        "workload (every public parser/validator, validate() of every metadata class, load of one document per format and "
        "version and of the shipped fixtures) records every pattern productmd itself hands to re; (2) for every such pattern "
        "the alphabet is derived from the pattern's own literals and classes (plus one character nothing accepts and "
        "newline) and 'prefix + pump^n + suffix' families (prefix/suffix <= 2 chars, pump <= 3 chars) are timed at total "
        "lengths 24, 48, 96 - seeded sample in quick, all families with prefix/suffix <= 1 in thorough; (3) the same kind of "
        "families over a generic alphabet are pushed through ~40 public entry points (predicates, id/NVRA/UID/label parsers, "
        "field validators through validate(), loads() of documents of every format with one pumped field). Oracle = CPU "
        "time: R1 every input of length <= 48 finishes within 0.25 s; R2 between consecutive lengths La<Lb time may grow at "
        "most like a degree-8 polynomial (with a 2 ms noise floor); the slowest families per pattern / entry point are "
        "followed up to length 384. Non-trivial = the pattern / entry point rejects the input (the only situation where "
        "backtracking cost shows); distinct = pattern or entry point + family. (4) every text position of 8 base documents is probed with a canary: text that reaches re as part of a PATTERN (unescaped) is confirmed end to end with a nested-quantifier pattern there and near-miss subjects elsewhere. (5) number-shaped text (exponent notation, long digit runs, signs, underscores, non-ASCII digits; 24 families growing one character at a time up to 48 characters) in every converted field - timestamps, disc numbers, sizes, respins, flags, as text and as bare JSON number tokens - under the same R1/R2 oracle: the cost of a conversion is not visible at the re boundary. (6) documents whose STRUCTURE is pumped (nesting depth up to 32, siblings, records) while every field stays short: a document of at most 20 000 characters loads and dumps within 1 CPU second each (R3), R2 between consecutive sizes. (7) text used as a TEMPLATE: every entry point is given values that carry a replacement field with a width of 5 to 8 digits in each formatting language of the standard library (str.format, %, by position and by every name visible in the productmd frames of the refusal); the refusal must stay within R1 and its message within a linear bound of the input - a width of d digits that costs 10^d is exponential in the length of the input.")
ASSUMPTIONS = ["CPU time (time.process_time) measured in the checking process with a virtual-time interval timer; thresholds leave > 100x margin over the slowest legitimate case",
               "an empirical cost model, not an ambiguity proof of the automata: a blow-up outside the explored families/lengths stays invisible"]
FLOORS = {"distinct_nontrivial": 1500, "patterns": 300, "entry-points": 600, "number-shaped-fields": 400, "input-as-template": 100}

R1_LIMIT = 0.25
NOISE_FLOOR = 0.002
DEGREE = 8
MIN_PATTERNS = 18        # the unchanged tree shows 24; fewer means the workload lost its reach (harness error, not a verdict)


class Timeout(BaseException):
    pass


def _alarm(signum, frame):
    raise Timeout()


def timed(fn, cap):
    """CPU seconds used by fn(), or None when it was still running after `cap` CPU seconds"""
    signal.signal(signal.SIGVTALRM, _alarm)
    try:
        signal.setitimer(signal.ITIMER_VIRTUAL, cap)
        t0 = time.process_time()
        try:
            fn()
        except Timeout:
            return None
        except Exception:  # noqa  (refusing the input is fine; only the time matters here)
            pass
        finally:
            signal.setitimer(signal.ITIMER_VIRTUAL, 0)
        return time.process_time() - t0
    except Timeout:
        return None


def measure(fn, cap):
    t = timed(fn, cap)
    if t is not None and t > 0.02:
        # re-measure: keep the minimum (a one-off hiccup must not become a verdict)
        for _ in range(2):
            t2 = timed(fn, cap)
            if t2 is not None:
                t = min(t, t2)
    return t


def too_fast_growing(la, ta, lb, tb, cap):
    """R2: tb (None = still running at cap) compared with the degree-8 polynomial bound from (la, ta)"""
    allowed = (float(lb) / la) ** DEGREE * max(ta, NOISE_FLOOR) * 1.5
    return (cap if tb is None else tb) > allowed


# ---- inventory ---------------------------------------------------------------------------------------------------------
_inventory = None


def inventory():
    global _inventory
    if _inventory is None:
        env = dict(os.environ, PYTHONPATH=VERIF_DIR + os.pathsep + os.environ.get("PYTHONPATH", ""), VERIF_REPO=REPO, PYTHONHASHSEED="0")
        proc = subprocess.run([sys.executable, "-m", "pbt.c19_inventory"], capture_output=True, text=True, env=env, cwd=VERIF_DIR, timeout=600)
        if proc.returncode != 0:
            raise HarnessError("pattern inventory failed:\n%s" % proc.stderr[-2000:])
        _inventory = json.loads(proc.stdout)
        if len(_inventory) < MIN_PATTERNS:
            raise HarnessError("pattern inventory reached only %d patterns (< %d): workload lost its reach" % (len(_inventory), MIN_PATTERNS))
    return _inventory


def derive_alphabet(pattern):
    try:
        import re._parser as sre_parse
        import re._constants as sre_constants
    except ImportError:  # pragma: no cover (python < 3.11)
        import sre_parse
        import sre_constants
    chars = []

    def add(c):
        if c not in chars:
            chars.append(c)

    def walk(items):
        for op, arg in items:
            name = str(op)
            if name == "LITERAL" or name == "NOT_LITERAL":
                add(chr(arg))
            elif name == "IN":
                walk([a for a in arg if str(a[0]) != "NEGATE"])
            elif name == "RANGE":
                lo, hi = arg
                add(chr(lo))
                if hi > lo:
                    add(chr(lo + 1))
            elif name == "CATEGORY":
                cat = str(arg)
                if "DIGIT" in cat:
                    add("1")
                elif "WORD" in cat:
                    add("a"), add("_")
                elif "SPACE" in cat:
                    add(" ")
            elif name == "ANY":
                add("x")
            elif name == "BRANCH":
                for branch in arg[1]:
                    walk(branch)
            elif name in ("MAX_REPEAT", "MIN_REPEAT", "POSSESSIVE_REPEAT"):
                walk(arg[2])
            elif name in ("SUBPATTERN",):
                walk(arg[3])
            elif name in ("ASSERT", "ASSERT_NOT"):
                walk(arg[1])
            elif name == "ATOMIC_GROUP":
                walk(arg)
    try:
        walk(sre_parse.parse(pattern))
    except Exception:  # noqa
        pass
    chars = chars[:8]
    for extra in ("!", "\n"):
        if extra not in chars:
            chars.append(extra)
    return chars


def required_runs(pattern):
    """counted repeats of a pattern (\\d{8}, [a-z0-9]{32}): a run of exactly that many accepted characters - what an input needs at
    that place before the rest of the pattern is reached at all"""
    try:
        import re._parser as sre_parse
    except ImportError:  # pragma: no cover
        import sre_parse
    runs = []

    def walk(items):
        for op, arg in items:
            name = str(op)
            if name in ("MAX_REPEAT", "MIN_REPEAT", "POSSESSIVE_REPEAT"):
                lo, hi, sub = arg
                if 2 <= lo <= 64:
                    member = derive_alphabet_of(sub)
                    if member and member * lo not in runs:
                        runs.append(member * lo)
                walk(sub)
            elif name == "BRANCH":
                for branch in arg[1]:
                    walk(branch)
            elif name == "SUBPATTERN":
                walk(arg[3])
            elif name in ("ASSERT", "ASSERT_NOT"):
                walk(arg[1])
    try:
        walk(sre_parse.parse(pattern))
    except Exception:  # noqa
        pass
    return runs[:3]


def derive_alphabet_of(items):
    for op, arg in items:
        name = str(op)
        if name == "LITERAL":
            return chr(arg)
        if name == "IN":
            for a in arg:
                if str(a[0]) == "LITERAL":
                    return chr(a[1])
                if str(a[0]) == "RANGE":
                    return chr(a[1][0])
                if str(a[0]) == "CATEGORY":
                    return "1" if "DIGIT" in str(a[1]) else "a"
        if name == "CATEGORY":
            return "1" if "DIGIT" in str(arg) else "a"
        if name == "ANY":
            return "x"
    return None


def families(alphabet, max_affix, max_pump):
    affixes = [""] + ["".join(t) for n in range(1, max_affix + 1) for t in itertools.product(alphabet, repeat=n)]
    pumps = ["".join(t) for n in range(1, max_pump + 1) for t in itertools.product(alphabet, repeat=n)]
    for pump in pumps:
        for prefix in affixes:
            for suffix in affixes:
                yield (prefix, pump, suffix)


def instance(family, length):
    prefix, pump, suffix = family
    n = max(1, (length - len(prefix) - len(suffix)) // len(pump))
    return prefix + pump * n + suffix


def screen(name, fn_for, family, rejected_fn):
    """R1 + R2 at lengths 24, 48, 96; returns (t96 or cap, rejected?)"""
    cap = 2.0
    times = []
    for length in (24, 48, 96):
        s = instance(family, length)
        t = measure(lambda: fn_for(s), cap)
        if length <= 48:
            check(t is not None and t <= R1_LIMIT, "short-input-stalls",
                  lambda: "%s: input of length %d (%r...) took %s CPU seconds (limit %.2f s)" % (name, len(s), s[:40], "more than %.1f" % cap if t is None else "%.3f" % t, R1_LIMIT))
        if times:
            la, ta = times[-1]
            check(not too_fast_growing(la, ta, length, t, cap), "super-polynomial-growth",
                  lambda: "%s: family %r: %.4f s at length %d, %s at length %d" % (name, family, ta, la, "> %.1f s" % cap if t is None else "%.4f s" % t, length))
        if t is None:
            break
        times.append((length, t))
    return times[-1][1] if times else cap


def follow_up(name, fn_for, family, lengths, cap):
    prev = None
    for length in lengths:
        s = instance(family, length)
        t = measure(lambda: fn_for(s), cap)
        if prev is not None:
            la, ta = prev
            check(not too_fast_growing(la, ta, length, t, cap), "super-polynomial-growth",
                  lambda: "%s: family %r: %.4f s at length %d, %s at length %d" % (name, family, ta, la, "> %.1f s" % cap if t is None else "%.4f s" % t, length))
        if t is None:
            return "stopped at length %d (cap %.0f s, growth within the polynomial bound)" % (length, cap)
        prev = (length, t)
    return None


# ---- entry points ----------------------------------------------------------------------------------------------------------
TI_HEAD = ("[header]\ntype = productmd.treeinfo\nversion = 1.2\n\n[release]\nname = Foo\nshort = F\nversion = %s\n\n"
           "[tree]\narch = x86_64\nbuild_timestamp = 1\nplatforms = x86_64\nvariants = Foo\n\n[variant-Foo]\nid = Foo\nuid = Foo\nname = Foo\ntype = variant\n")


def entry_points():
    import productmd.common as common
    import productmd.composeinfo as ci
    import productmd.images as im
    import productmd.modules as mo
    import productmd.rpms as rp
    import productmd.treeinfo as ti
    import productmd.discinfo as di

    def ci_doc(version="1.2", **fields):
        doc = {"header": {"type": "productmd.composeinfo", "version": version},
               "payload": {"compose": {"id": "F-22-20160622.n.3", "type": "nightly", "date": "20160622", "respin": 3},
                           "release": {"name": "F", "short": "F", "version": "22", "type": "ga"},
                           "product": {"name": "F", "short": "F", "version": "22"},
                           "variants": {"Server": {"id": "Server", "uid": "Server", "name": "S", "type": "variant", "arches": ["x86_64"], "paths": {}}}}}
        for path, value in fields.items():
            node = doc
            keys = path.split("__")
            for k in keys[:-1]:
                node = node[k]
            node[keys[-1]] = value
        return json.dumps(doc)

    def compose_field(field):
        def sink(s):
            c = ci.ComposeInfo()
            setattr(c.compose, field, s)
            c.compose.validate()
        return sink

    def release_version(s):
        c = ci.ComposeInfo()
        c.release.name, c.release.short, c.release.type, c.release.version = "F", "F", "ga", s
        c.release.validate()

    def variant_id(s):
        c = ci.ComposeInfo()
        v = ci.Variant(c)
        v.id, v.uid, v.name, v.type, v.arches = s, s, "n", "variant", set(["x86_64"])
        c.variants.add(v)

    def header_version(s):
        c = ci.ComposeInfo()
        c.header.version = s
        c.header.version_tuple

    def implant(s):
        images = im.Images()
        img = im.Image(images)
        img.implant_md5 = s
        img._validate_implant_md5()

    def images_doc(s):
        doc = {"header": {"type": "productmd.images", "version": "1.2"},
               "payload": {"compose": {"id": "F-22-20160622.n.3", "type": "nightly", "date": "20160622", "respin": 3},
                           "images": {"Server": {"x86_64": [{"path": "p", "mtime": 1, "size": 1, "volume_id": None, "type": "dvd", "format": "iso", "arch": "x86_64",
                                                             "disc_number": 1, "disc_count": 1, "checksums": {"md5": "x"}, "implant_md5": s, "bootable": False,
                                                             "subvariant": s}]}}}}
        im.Images().loads(json.dumps(doc))

    def ti_version(s):
        t = ti.TreeInfo()
        t.release.name, t.release.short, t.release.version = "F", "F", s
        t.release.validate()

    def one_line(fn):
        def sink(s):
            if "\n" in s or "\r" in s:
                s = s.replace("\n", "~").replace("\r", "~")
            return fn(s)
        return sink

    def rpms_add(which):
        def sink(s):
            r = rp.Rpms()
            if which == "nevra":
                r.add("Server", "x86_64", s, "p", None, "binary", "glibc-0:2.18-11.fc20.src")
            else:
                r.add("Server", "x86_64", "glibc-0:2.18-11.fc20.x86_64", "p", None, "binary", s)
        return sink

    def modules_add(s):
        mo.Modules().add("Server", "x86_64", s, "tag", "p", "binary", [])

    def rpms_03_doc(s):
        doc = {"header": {"version": "0.3"}, "payload": {"compose": {"id": "F-22-20160622.n.3", "type": "nightly", "date": "20160622", "respin": 3},
                                                          "manifest": {"Server": {"x86_64": {s: {s: {"path": "p", "sigkey": None, "type": "package"}}}}}}}
        rp.Rpms().loads(json.dumps(doc))

    return [
        ("is_valid_release_short", common.is_valid_release_short), ("is_valid_release_version", common.is_valid_release_version),
        ("is_valid_release_type", common.is_valid_release_type),
        ("create_release_id(short)", lambda s: common.create_release_id(s, "7", "ga")),
        ("create_release_id(version)", lambda s: common.create_release_id("rhel", s, "ga")),
        ("create_release_id(type)", lambda s: common.create_release_id("rhel", "7", s)),
        ("create_release_id(bp)", lambda s: common.create_release_id("rhel", "7", "ga", s, s, s)),
        ("parse_release_id", common.parse_release_id), ("parse_release_id(bp)", lambda s: common.parse_release_id("rhel-7@" + s)),
        ("parse_nvra", common.parse_nvra), ("parse_nvra(.rpm)", lambda s: common.parse_nvra(s + ".rpm")),
        ("Rpms.add(nevra)", rpms_add("nevra")), ("Rpms.add(srpm)", rpms_add("srpm")), ("Rpms.loads(0.3 key)", rpms_03_doc),
        ("Modules.parse_uid", mo.Modules.parse_uid), ("Modules.add(uid)", modules_add),
        ("verify_label", ci.verify_label), ("get_date_type_respin", ci.get_date_type_respin),
        ("split_version", common.split_version), ("get_major_version", common.get_major_version), ("get_minor_version", common.get_minor_version),
        ("Compose.id validate", compose_field("id")), ("Compose.date validate", compose_field("date")), ("Compose.label validate", compose_field("label")),
        ("Release.version validate", release_version), ("Variant.id validate/add", variant_id), ("Header.version", header_version),
        ("Image.implant_md5 validate", implant), ("Images.loads(implant_md5, subvariant)", images_doc),
        ("treeinfo Release.version validate", ti_version),
        ("ComposeInfo.loads(compose.id)", lambda s: ci.ComposeInfo().loads(ci_doc(payload__compose__id=s))),
        ("ComposeInfo.loads(legacy compose.id)", lambda s: ci.ComposeInfo().loads(ci_doc(version="0.0", payload__compose__id=s))),
        ("ComposeInfo.loads(compose.label)", lambda s: ci.ComposeInfo().loads(ci_doc(payload__compose__label=s))),
        ("ComposeInfo.loads(compose.date)", lambda s: ci.ComposeInfo().loads(ci_doc(payload__compose__date=s))),
        ("ComposeInfo.loads(release.version)", lambda s: ci.ComposeInfo().loads(ci_doc(payload__release__version=s))),
        ("ComposeInfo.loads(header.version)", lambda s: ci.ComposeInfo().loads(ci_doc(header__version=s))),
        ("ComposeInfo.loads(variant id)", lambda s: ci.ComposeInfo().loads(ci_doc(payload__variants__Server__id=s))),
        ("TreeInfo.loads(release.version)", one_line(lambda s: ti.TreeInfo().loads(TI_HEAD % s))),
        ("TreeInfo.loads(header.version)", one_line(lambda s: ti.TreeInfo().loads((TI_HEAD % "1").replace("version = 1.2", "version = " + s)))),
        ("TreeInfo.loads(pre-productmd general.version)", one_line(lambda s: ti.TreeInfo().loads(
            "[general]\nfamily = Foo\nversion = %s\narch = x86_64\ntimestamp = 1\nvariant = Foo\n" % s))),
        ("TreeInfo.loads(pre-productmd general.version, after separator)", one_line(lambda s: ti.TreeInfo().loads(
            "[general]\nfamily = Foo\nversion = 21_%s\narch = x86_64\ntimestamp = 1\nvariant = Foo\n" % s))),
        ("TreeInfo.loads(checksum value)", one_line(lambda s: ti.TreeInfo().loads((TI_HEAD % "1") + "\n[checksums]\na = %s\n" % s))),
        ("DiscInfo.loads(timestamp line)", one_line(lambda s: di.DiscInfo().loads("%s\nFedora\nx86_64\nALL" % s))),
        ("DiscInfo.loads(description line)", one_line(lambda s: di.DiscInfo().loads("1.5\n%s\nx86_64\nALL" % s))),
        ("DiscInfo.loads(arch line)", one_line(lambda s: di.DiscInfo().loads("1.5\nFedora\n%s\nALL" % s))),
        ("DiscInfo.loads(disc numbers line)", one_line(lambda s: di.DiscInfo().loads("1.5\nFedora\nx86_64\n%s" % s))),
        # the same documents handed over as byte streams (a file opened "rb", a network response): reading is part of parsing
        ("ComposeInfo.load(byte stream, compose.label)", lambda s: ci.ComposeInfo().load(io.BytesIO(ci_doc(payload__compose__label=s).encode("utf-8")))),
        ("ComposeInfo.load(byte stream, variant id)", lambda s: ci.ComposeInfo().load(io.BytesIO(ci_doc(payload__variants__Server__id=s).encode("utf-8")))),
        ("Rpms.load(byte stream, 0.3 key)", lambda s: rp.Rpms().load(io.BytesIO(json.dumps(
            {"header": {"version": "0.3"}, "payload": {"compose": {"id": "F-22-20160622.n.3", "type": "nightly", "date": "20160622", "respin": 3},
                                                       "manifest": {"Server": {"x86_64": {s: {s: {"path": "p", "sigkey": None, "type": "package"}}}}}}}).encode("utf-8")))),
        ("TreeInfo.load(byte stream, release.version)", one_line(lambda s: ti.TreeInfo().load(io.BytesIO((TI_HEAD % s).encode("utf-8"))))),
        ("DiscInfo.load(byte stream, timestamp line)", one_line(lambda s: di.DiscInfo().load(io.BytesIO(("%s\nFedora\nx86_64\nALL" % s).encode("utf-8"))))),
    ]


GENERIC = ["a", "1", "-", ".", ":", "!", "/", "@", " ", "A", "_", "\n", "\"", "'"]
GENERIC_RUNS = ["F-22-20160622", "a1" * 16]


# ---- number-shaped text ----------------------------------------------------------------------------------------------------
# Not every cost sits in a pattern: text that is CONVERTED (timestamps, disc numbers, sizes, respins, flags) can be short and
# still expensive when the conversion is exact for huge magnitudes.  Families grow one character at a time.
NUMBER_FAMILIES = [("1e", "9", ""), ("1E+", "9", ""), ("1e-", "9", ""), ("9e", "9", ""), (".1e", "9", ""), ("1.5e", "9", ""), ("-1e", "9", ""), ("1e", "9", ".0"),
                   ("1", "0", ""), ("-", "9", ""), ("0.", "0", "1"), ("1", "_0", ""), ("0x", "f", ""), ("1e", "0", "1"), ("", "9", "e9"), ("", "9", "e99"),
                   ("", "\u0661", ""), ("1e", "\u0669", ""), (" ", "9", " "), ("+", "1", ""), ("1e+", "0", "9"), ("inf", "f", ""), ("1", "e1", ""), ("", "1.", "1"),
                   # spans: the cost of a notation that is expanded lies in the VALUE of its bound
                   ("1-", "9", ""), ("0-", "9", ""), ("1..", "9", ""), ("1:", "9", ""), ("1-", "9", ",1"), ("1,2-", "9", ""), ("[1-", "9", "]"), ("1*", "9", ""), ("", "9", "-1")]
NUMBER_LENGTHS = list(range(1, 15)) + [20, 32, 48]


def number_sinks():
    import productmd.common as common
    import productmd.composeinfo as ci
    import productmd.images as im
    import productmd.treeinfo as ti
    import productmd.discinfo as di

    def ti_field(section, option, legacy=False):
        def sink(s):
            s = s.replace("\n", "~")
            if legacy:
                text = "[general]\nfamily = Foo\nversion = 1\narch = x86_64\ntimestamp = 1\nvariant = Foo\n"
                text = text.replace("timestamp = 1", "timestamp = " + s)
            else:
                text = TI_HEAD % "1"
                if section == "tree":
                    text = text.replace("%s = 1\n" % option, "%s = %s\n" % (option, s))
                elif section == "media":
                    text += "\n[media]\ndiscnum = 1\ntotaldiscs = 1\n"
                    text = text.replace("%s = 1\n" % option, "%s = %s\n" % (option, s))
                else:
                    text = text.replace("[release]\n", "[release]\n%s = %s\n" % (option, s))
            ti.TreeInfo().loads(text)
        return sink

    def image_doc(field, raw):
        def sink(s):
            rec = {"path": "p", "mtime": 1, "size": 1, "volume_id": None, "type": "dvd", "format": "iso", "arch": "x86_64", "disc_number": 1, "disc_count": 1,
                   "checksums": {"md5": "x"}, "implant_md5": None, "bootable": False, "subvariant": "S"}
            rec[field] = "@@" if raw else s
            doc = {"header": {"type": "productmd.images", "version": "1.2"},
                   "payload": {"compose": {"id": "F-22-20160622.n.3", "type": "nightly", "date": "20160622", "respin": 3}, "images": {"Server": {"x86_64": [rec]}}}}
            text = json.dumps(doc)
            if raw:
                text = text.replace('"@@"', s.replace("\n", " "))       # the text as a bare JSON number token
            im.Images().loads(text)
        return sink

    def respin(raw):
        def sink(s):
            doc = {"header": {"type": "productmd.composeinfo", "version": "1.2"},
                   "payload": {"compose": {"id": "F-22-20160622.n.3", "type": "nightly", "date": "20160622", "respin": "@@" if raw else s},
                               "release": {"name": "F", "short": "F", "version": "22", "type": "ga"}, "variants": {}}}
            text = json.dumps(doc)
            if raw:
                text = text.replace('"@@"', s.replace("\n", " "))
            ci.ComposeInfo().loads(text)
        return sink

    def image_attr(field):
        def sink(s):
            img = im.Image(im.Images())
            setattr(img, field, s)
            getattr(img, "_validate_" + field)()
        return sink

    return [
        ("TreeInfo.loads([tree] build_timestamp)", ti_field("tree", "build_timestamp")), ("TreeInfo.loads(pre-productmd [general] timestamp)", ti_field("general", "timestamp", legacy=True)),
        ("TreeInfo.loads([media] discnum)", ti_field("media", "discnum")), ("TreeInfo.loads([media] totaldiscs)", ti_field("media", "totaldiscs")),
        ("TreeInfo.loads([release] is_layered)", ti_field("release", "is_layered")),
        ("DiscInfo.loads(timestamp line)", lambda s: di.DiscInfo().loads("%s\nFedora\nx86_64\nALL" % s.replace("\n", "~"))),
        ("DiscInfo.loads(disc numbers line)", lambda s: di.DiscInfo().loads("1.5\nFedora\nx86_64\n%s" % s.replace("\n", "~"))),
        ("DiscInfo.loads(disc numbers list)", lambda s: di.DiscInfo().loads("1.5\nFedora\nx86_64\n1,%s" % s.replace("\n", "~"))),
        ("Images.loads(size as text)", image_doc("size", False)), ("Images.loads(size as number token)", image_doc("size", True)),
        ("Images.loads(mtime as text)", image_doc("mtime", False)), ("Images.loads(mtime as number token)", image_doc("mtime", True)),
        ("Images.loads(disc_number as text)", image_doc("disc_number", False)), ("Images.loads(disc_count as number token)", image_doc("disc_count", True)),
        ("ComposeInfo.loads(respin as text)", respin(False)), ("ComposeInfo.loads(respin as number token)", respin(True)),
        ("split_version", common.split_version), ("get_major_version", common.get_major_version), ("get_minor_version", common.get_minor_version),
        ("get_date_type_respin(respin part)", lambda s: ci.get_date_type_respin("F-22-20160622.n." + s)),
        ("parse_nvra(epoch part)", lambda s: common.parse_nvra("glibc-%s:2.18-11.fc20.x86_64" % s)),
        ("verify_label(number part)", lambda s: ci.verify_label("RC-1." + s)),
    ]


# ---- structured growth -----------------------------------------------------------------------------------------------------
# A document is an input string too: its STRUCTURE can be pumped (nesting depth, number of siblings, number of records) while
# every single field stays short.  R3: a generated document of at most 20 000 characters loads, and the loaded object dumps,
# within 1.0 CPU second each (the unchanged tree needs milliseconds); R2 between consecutive sizes as for strings.
STRUCTURE_SIZES = {"composeinfo-chain": [2, 4, 6, 8, 10, 12, 14, 16, 20, 24, 32], "treeinfo-chain": [2, 4, 6, 8, 10, 12, 14, 16, 20, 24, 32],
                   "composeinfo-siblings": [4, 16, 64, 128], "composeinfo-two-levels": [2, 4, 8, 12], "images-one-cell": [4, 16, 64], "rpms-0.3-packages": [4, 16, 64, 128],
                   "treeinfo-siblings": [4, 16, 64],
                   # values that LOOK like references to other options of the file (the syntax some INI readers expand): nine levels, k references each
                   "treeinfo-percent-references": [1, 2, 3, 4, 5, 6, 8],
                   # header-less files whose child sections are named by bare id and list the next level's ids: one section per id, d levels;
                   # and header-less files whose [general] lists k add-ons that have no sections of their own
                   "treeinfo-legacy-shared-sections": [2, 4, 6, 8, 10, 12, 14, 16, 20], "treeinfo-legacy-general-addons": [2, 4, 6, 8, 10, 12, 16]}
R3_LIMIT, R3_CHARS = 1.0, 20000


def structured_document(kind, n):
    comp = {"id": "F-22-20160622.n.3", "type": "nightly", "date": "20160622", "respin": 3}
    if kind.startswith("composeinfo"):
        variants = {}

        def var(vid, uid, kids):
            variants[uid] = {"id": vid, "uid": uid, "name": vid, "type": "variant", "arches": ["x86_64"], "paths": {"os_tree": {"x86_64": uid}}}
            if kids:
                variants[uid]["variants"] = kids
        if kind == "composeinfo-chain":
            uid = "A"
            for level in range(n):
                var("A", uid, ["A"] if level < n - 1 else [])
                uid += "-A"
        elif kind == "composeinfo-siblings":
            for i in range(n):
                var("V%d" % i, "V%d" % i, [])
        else:
            for i in range(n):
                var("V%d" % i, "V%d" % i, ["K%d" % j for j in range(n)])
                for j in range(n):
                    var("K%d" % j, "V%d-K%d" % (i, j), [])
        doc = {"header": {"type": "productmd.composeinfo", "version": "1.2"},
               "payload": {"compose": comp, "release": {"name": "F", "short": "F", "version": "22", "type": "ga", "internal": False}, "variants": variants}}
        return "composeinfo", json.dumps(doc)
    if kind.startswith("treeinfo"):
        lines = ["[header]", "type = productmd.treeinfo", "version = 1.2", "", "[release]", "name = F", "short = F", "version = 22", "",
                 "[tree]", "arch = x86_64", "build_timestamp = 1", "platforms = x86_64"]
        if kind == "treeinfo-legacy-shared-sections":
            legacy = ["[general]", "family = Foo", "version = 1", "arch = x86_64", "timestamp = 1", "variant = r", "", "[variant-r]", "addons = a1,b1", ""]
            for level in range(1, n + 1):
                for x in "ab":
                    legacy.append("[variant-%s%d]" % (x, level))
                    if level < n:
                        legacy.append("addons = a%d,b%d" % (level + 1, level + 1))
                    legacy.append("")
            return "treeinfo", "\n".join(legacy) + "\n"
        if kind == "treeinfo-legacy-general-addons":
            return "treeinfo", "[general]\nfamily = Foo\nversion = 1\narch = x86_64\ntimestamp = 1\nvariant = Foo\naddons = %s\n" % ",".join("A%d" % i for i in range(n))
        if kind == "treeinfo-percent-references":
            lines[lines.index("name = F")] = "name = " + "%(n1)s" * n
            at = lines.index("short = F")
            for level in range(1, 10):
                lines.insert(at, "n%d = %s" % (level, ("%%(n%d)s" % (level + 1)) * n if level < 9 else "x"))
            lines += ["variants = V0", "", "[variant-V0]", "id = V0", "uid = V0", "name = %(id)s%(id)s", "type = variant", "packages = %(repository)s", "repository = r", ""]
            return "treeinfo", "\n".join(lines) + "\n"
        if kind == "treeinfo-chain":
            lines += ["variants = A", ""]
            uid = "A"
            for level in range(n):
                lines += ["[variant-%s]" % uid, "id = A", "uid = %s" % uid, "name = A", "type = variant", "packages = p", "repository = r"]
                if level:
                    lines.append("parent = %s" % uid[:-2])
                if level < n - 1:
                    lines.append("addons = %s-A" % uid)
                lines.append("")
                uid += "-A"
        else:
            lines += ["variants = %s" % ",".join("V%d" % i for i in range(n)), ""]
            for i in range(n):
                lines += ["[variant-V%d]" % i, "id = V%d" % i, "uid = V%d" % i, "name = V", "type = variant", "packages = p", "repository = r", ""]
        return "treeinfo", "\n".join(lines) + "\n"
    if kind == "images-one-cell":
        recs = [{"path": "p%d" % i, "mtime": 1, "size": 1, "volume_id": None, "type": "dvd", "format": "iso", "arch": "x86_64", "disc_number": i + 1, "disc_count": n,
                 "checksums": {"md5": "x"}, "implant_md5": None, "bootable": False, "subvariant": "S"} for i in range(n)]
        return "images", json.dumps({"header": {"type": "productmd.images", "version": "1.2"}, "payload": {"compose": comp, "images": {"Server": {"x86_64": recs}}}})
    table = {}
    for i in range(n):
        table["p%d-0:1-1.src" % i] = {"p%d-0:1-1.x86_64" % i: {"path": "p", "sigkey": None, "type": "package"}}
    return "rpms", json.dumps({"header": {"version": "0.3"}, "payload": {"compose": comp, "manifest": {"Server": {"x86_64": table}}}})


def structured_case(case):
    from pbt import c19_docs
    import productmd.composeinfo
    import productmd.images
    import productmd.rpms
    import productmd.treeinfo
    classes = {"composeinfo": productmd.composeinfo.ComposeInfo, "images": productmd.images.Images, "rpms": productmd.rpms.Rpms, "treeinfo": productmd.treeinfo.TreeInfo}
    prev, worst = None, 0.0
    for n in STRUCTURE_SIZES[case["kind"]]:
        cls, text = structured_document(case["kind"], n)
        holder = []

        def load():
            obj = classes[cls]()
            obj.loads(text)
            holder.append(obj)
        t = measure(load, 4.0)
        if len(text) <= R3_CHARS:
            check(t is not None and t <= R3_LIMIT, "small-document-stalls", lambda: "%s with n=%d: a %d-character document took %s CPU seconds to load (limit %.1f s)" % (
                case["kind"], n, len(text), "more than 4.0" if t is None else "%.2f" % t, R3_LIMIT))
        if t is None:
            break
        if not holder:
            # refused (quickly): that is an answer too; only the time matters here
            prev, worst = (len(text), t), max(worst, t)
            continue
        td = measure(holder[-1].dumps, 4.0)
        if len(text) <= R3_CHARS:
            check(td is not None and td <= R3_LIMIT, "small-document-stalls", lambda: "%s with n=%d: the object loaded from a %d-character document took %s CPU seconds to dump (limit %.1f s)" % (
                case["kind"], n, len(text), "more than 4.0" if td is None else "%.2f" % td, R3_LIMIT))
        spent = t + (td if td is not None else 4.0)
        if prev is not None:
            check(not too_fast_growing(prev[0], max(prev[1], 0.01), len(text), spent, 8.0), "super-polynomial-growth", lambda: "%s: %.4f s at %d characters, %.4f s at %d characters" % (
                case["kind"], prev[1], prev[0], spent, len(text)))
        prev, worst = (len(text), spent), max(worst, spent)
    return {"nontrivial": True, "labels": ["structured", case["kind"]], "t": worst}


def number_case(case, sinks=None):
    sinks = sinks or number_sinks()
    fn = dict(sinks)[case["entry"]]
    family = tuple(case["family"])
    prev, worst = None, 0.0
    for n in NUMBER_LENGTHS:
        s = family[0] + family[1] * n + family[2]
        t = measure(lambda: fn(s), 2.0)
        if t is not None and prev is not None and too_fast_growing(prev[0], max(prev[1], 0.01), len(s), t, 2.0):
            # one-character steps leave little room: a verdict needs the minimum of several runs, not a single hiccup
            for _ in range(4):
                t2 = timed(lambda: fn(s), 2.0)
                if t2 is not None:
                    t = min(t, t2)
        spent = 2.0 if t is None else t
        check(spent <= R1_LIMIT, "short-input-stalls", lambda: "%s: %d-character text %r took %s CPU seconds (limit %.2f s)" % (
            case["entry"], len(s), s[:40], "more than 2.0" if t is None else "%.3f" % t, R1_LIMIT))
        if prev is not None:
            check(not too_fast_growing(prev[0], max(prev[1], 0.01), len(s), t, 2.0), "super-polynomial-growth", lambda: "%s: family %r: %.4f s at length %d, %.4f s at length %d" % (
                case["entry"], family, prev[1], prev[0], spent, len(s)))
        prev, worst = (len(s), spent), max(worst, spent)
    return {"nontrivial": True, "labels": ["number-shaped"], "t": worst}


# ---- document text used as a pattern -----------------------------------------------------------------------------------------
def taint_inventory():
    env = dict(os.environ, PYTHONPATH=VERIF_DIR + os.pathsep + os.environ.get("PYTHONPATH", ""), VERIF_REPO=REPO, PYTHONHASHSEED="0")
    proc = subprocess.run([sys.executable, "-m", "pbt.c19_inventory", "--taint"], capture_output=True, text=True, env=env, cwd=VERIF_DIR, timeout=900)
    if proc.returncode != 0:
        raise HarnessError("taint scan failed:\n%s" % proc.stderr[-2000:])
    return json.loads(proc.stdout)


ATTACK_PATTERNS = ["(x+)+", "(x+)+$", "(x|x)+", "x(x+)+y"]
ATTACK_SUBJECTS = ["x" * 28 + "!", "-" + "x" * 28 + "!", "a-" + "x" * 28 + "!", "x" * 28]


def taint_case(case):
    """end-to-end confirmation: the tainted position gets a pattern with nested quantifiers, every other text position in
    turn gets a short subject that nearly matches it; loads() must still finish within the R1 limit"""
    from pbt import c19_docs
    doc = c19_docs.base_docs()[case["doc"]]
    leaf = tuple(case["leaf"])
    others = [l for l in c19_docs.leaves(doc) if l != leaf]
    if "subject_leaf" in case:
        others = [tuple(case["subject_leaf"])]
    tried = 0
    for pat in ([case["attack_pattern"]] if "attack_pattern" in case else ATTACK_PATTERNS):
        for other in others:
            for subj in ([case["attack_subject"]] if "attack_subject" in case else ATTACK_SUBJECTS):
                d2 = {"kind": doc["kind"], "cls": doc.get("cls"), "doc": None, "ini": None}
                text, cls = c19_docs.substitute(doc, leaf, lambda old: pat)
                # second substitution on the already substituted document
                import copy as _copy
                tmp = _copy.deepcopy(doc)
                if doc["kind"] == "json":
                    tmp["doc"] = json.loads(text)
                else:
                    from pbt import ti as tim
                    tmp["ini"] = tim.read_ini(text)
                try:
                    text2, cls = c19_docs.substitute(tmp, other, lambda old: subj)
                except Exception:  # noqa  (the first substitution renamed what the second one addresses)
                    continue
                tried += 1
                t = measure(lambda: c19_docs.load(text2, cls), 2.0)
                check(t is not None and t <= R1_LIMIT, "document-text-used-as-pattern",
                      lambda: "%s: text at %r reaches re as a pattern (%s); with %r there and %r at %r a %d-character document takes %s CPU seconds to load" % (
                          case["doc"], leaf, case.get("pattern"), pat, subj, other, len(text2), "more than 2.0" if t is None else "%.2f" % t))
    return {"nontrivial": True, "labels": ["tainted-position"], "tried": tried}


# ---- input text used as a template -------------------------------------------------------------------------------------------
# A refused value ends up in a message.  If it gets there THROUGH a formatting step (str.format, %, string.Template) instead of
# as an argument of one, a width of d digits makes the refusal cost 10^d steps: exponential in the length of the input.
TEMPLATE_BASES = ["", "x.", "1.2-", "a:b:c "]
TEMPLATE_WIDTHS = [10 ** 4, 10 ** 5, 10 ** 6, 10 ** 7]
COMMON_NAMES = ["", "0", "1", "2", "value", "field", "name", "msg", "message", "pattern", "patterns", "expected", "detail", "key", "self", "cls", "args", "kwargs"]


def _visible_names(exc):
    """names a formatting step next to the refusal could refer to: locals (and keys of mapping locals) of the productmd frames"""
    names = set()
    tb = exc.__traceback__
    while tb is not None:
        frame = tb.tb_frame
        if os.sep + "productmd" + os.sep in frame.f_code.co_filename:
            for k, v in list(frame.f_locals.items()):
                names.add(k)
                if isinstance(v, dict):
                    names.update(x for x in list(v)[:30] if isinstance(x, str) and x.isidentifier())
        tb = tb.tb_next
    return names


def _refusal(fn, value, entry="?"):
    """the exception fn(value) ends in (None when it returns) - under the CPU-time guard: a probe must not be able to stall the check"""
    box = {}

    def call():
        try:
            fn(value)
        except Timeout:
            raise
        except Exception as exc:  # noqa
            box["exc"] = exc
    t = timed(call, 2.0)
    check(t is not None and t <= R1_LIMIT, "short-input-stalls",
          lambda: "entry point %s: the %d-character value %r took %s CPU seconds (limit %.2f s)" % (entry, len(value), value, "more than 2.0" if t is None else "%.3f" % t, R1_LIMIT))
    return box.get("exc")


def template_case(case, eps=None):
    eps = eps or entry_points()
    fn = dict(eps)[case["entry"]]
    base = case["base"]
    plain = _refusal(fn, base + "(x:>10000)", case["entry"])
    names = set(COMMON_NAMES)
    for probe in ("{x}", "%(x)s", "${x}", "{0}", "%s %s %s %s %s %s %s %s"):
        exc = _refusal(fn, base + probe, case["entry"])
        if exc is not None:
            names |= _visible_names(exc)
    names = sorted(n for n in names if len(n) <= 24)
    if "names" in case:
        names = case["names"]
    refused = 0
    plain_len = len(str(plain)) if plain is not None else 0
    for name in names:
        styles = ["{" + name + ":>@W@}", "{" + name + "!r:>@W@}"]
        if name and not name.isdigit():
            styles += ["%(" + name + ")@W@s", "%(" + name + ")@W@d"]
        elif name == "":
            styles += ["%@W@s", "%@W@d", "%@W@r", "%0@W@d"]
        for style in (case["styles"] if "styles" in case else styles):
            for width in TEMPLATE_WIDTHS:
                value = base + style.replace("@W@", str(width))
                exc = _refusal(fn, value, case["entry"])
                size = len(str(exc)) if exc is not None else 0
                refused += exc is not None
                check(size <= plain_len + 64 * len(value) + 1000, "refused-value-used-as-template",
                      lambda: "entry point %s: the %d-character value %r is refused with a message of %d characters (a value of the same length without a width: %d characters); every further digit multiplies the work by ten" % (
                          case["entry"], len(value), value, size, plain_len))
    return {"nontrivial": refused > 0, "labels": ["refused" if refused else "accepted", "names:%d" % min(len(names) // 10 * 10, 40)], "tried": refused}


def run_families(alphabet, runs):
    """the part of a pattern behind a counted repeat is reached only by inputs that carry the run: run + pump^n + suffix"""
    out = []
    pumps = ["".join(t) for n in (1, 2) for t in itertools.product(alphabet, repeat=n)]
    for run in runs:
        for pump in pumps:
            for suffix in ("!", "\n", "", "-x", pump[:1] + "!"):
                for lead in ("", "a-"):
                    out.append((lead + run, pump, suffix))
    return out


def chosen(alphabet, max_affix, max_pump, count, seed_parts, runs=()):
    """count=None: every family (deterministically shuffled); otherwise a seeded sample drawn without materialising the space"""
    rnd = random.Random(derive_seed(*seed_parts))
    if count is None:
        fams = list(families(alphabet, max_affix, max_pump)) + run_families(alphabet, runs)
        rnd.shuffle(fams)
        return fams
    if runs:
        return chosen(alphabet, max_affix, max_pump, count, seed_parts) + run_families(alphabet, runs)
    affixes = [""] + ["".join(t) for n in range(1, max_affix + 1) for t in itertools.product(alphabet, repeat=n)]
    pumps = ["".join(t) for n in range(1, max_pump + 1) for t in itertools.product(alphabet, repeat=n)]
    out, seen = [], set()
    # the classic shape first: pump of one own character, then one character nothing accepts
    for a in alphabet:
        for fam in (("", a, "!"), ("", a, "\n"), ("", a, "")):
            if fam not in seen:
                seen.add(fam)
                out.append(fam)
    while len(out) < count and len(seen) < len(affixes) * len(affixes) * len(pumps):
        fam = (rnd.choice(affixes), rnd.choice(pumps), rnd.choice(affixes))
        if fam not in seen:
            seen.add(fam)
            out.append(fam)
    return out[:max(count, 3 * len(alphabet))]


def run(ctx):
    pats = inventory()
    sub = ctx.sub("patterns")
    t0 = time.time()
    if ctx.shard == 0:
        sub.notes.append("%d patterns observed at the re boundary: %s" % (len(pats), "; ".join("%r@%s" % (p["pattern"], ",".join(p["sites"])) for p in pats)))
    work = []
    for p in pats:
        alphabet = derive_alphabet(p["pattern"])
        runs = required_runs(p["pattern"])
        if ctx.thorough:
            fams = chosen(alphabet, 1, 3, None, (ctx.seed, p["pattern"]), runs)
        else:
            fams = chosen(alphabet, 2, 3, 240, (ctx.seed, p["pattern"]), runs)
        for i, fam in enumerate(fams):
            work.append((p, fam))
    slow = {}
    failed = set()           # one finding per pattern / entry point is enough; do not wait for every slow family
    for i, (p, fam) in enumerate(work):
        if i % ctx.nshards != ctx.shard or p["pattern"] in failed:
            continue
        compiled = re.compile(p["pattern"], p["flags"] & ~re.UNICODE if False else p["flags"])
        kinds = [k for k in p["kinds"] if k in ("match", "search", "fullmatch", "split", "sub", "findall")] or ["match"]
        case = {"pattern": p["pattern"], "flags": p["flags"], "kind": kinds[0], "family": list(fam)}
        sub.evaluations += 1
        try:
            info = pattern_case(case)
        except Violation as v:
            ctx._violation("patterns", case, v)
            failed.add(p["pattern"])
            continue
        ctx._account(sub, case, info, True)
        slow.setdefault(p["pattern"], []).append((info["t"], fam, case))
    # follow the slowest families of every pattern up to longer inputs
    k = 4 if ctx.thorough else 2
    for pattern, lst in slow.items():
        if pattern in failed:
            continue
        lst.sort(key=lambda x: -x[0])
        for t, fam, case in lst[:k]:
            if t < 0.0005 and not ctx.thorough:
                continue
            sub.evaluations += 1
            fcase = dict(case, follow_up=True, tier=ctx.tier)
            try:
                pattern_case(fcase)
            except Violation as v:
                ctx._violation("patterns", fcase, v)
    sub.wall += time.time() - t0

    # document text that reaches re as a pattern (not escaped): confirm end to end
    if ctx.wanted("input-as-pattern"):
        sub = ctx.sub("input-as-pattern")
        t0 = time.time()
        tainted = taint_inventory() if ctx.shard == 0 else []
        from pbt import c19_docs
        if ctx.shard == 0:
            docs = c19_docs.base_docs()
            n = sum(len(c19_docs.leaves(d)) for d in docs.values())
            sub.evaluations += 2 * n
            sub.notes.append("%d text positions in %d documents probed with a canary; %d reached re as part of a pattern" % (n, len(docs), len(tainted)))
            for name in sorted(docs):
                for leaf in c19_docs.leaves(docs[name])[:400]:
                    sub.nontrivial.add(case_hash([name, list(leaf)]))
            sub.labels["nontrivial"] += n
            sub.samples.append({"document": "treeinfo-0.0", "positions": [list(l) for l in c19_docs.leaves(docs["treeinfo-0.0"])[:6]]})
        seen_positions = set()
        for item in tainted:
            key = (item["doc"], tuple(item["leaf"]))
            if key in seen_positions:
                continue
            seen_positions.add(key)
            case = {"doc": item["doc"], "leaf": item["leaf"], "pattern": item["pattern"], "sites": item["sites"]}
            try:
                taint_case(case)
            except Violation as v:
                ctx._violation("input-as-pattern", case, v)
                break
        sub.wall += time.time() - t0

    # number-shaped text in converted fields
    if ctx.wanted("number-shaped-fields"):
        sinks = number_sinks()
        if ctx.shard == 0:
            ctx.sub("number-shaped-fields").notes.append("%d sinks x %d families x lengths %r: %s" % (
                len(sinks), len(NUMBER_FAMILIES), NUMBER_LENGTHS, "; ".join(n for n, _ in sinks)))
        ctx.sweep("number-shaped-fields", [{"entry": name, "family": list(fam)} for name, _ in sinks for fam in NUMBER_FAMILIES], lambda c: number_case(c, sinks), exhaustive=True)

    if ctx.wanted("input-as-template"):
        eps_t = entry_points()
        ctx.sweep("input-as-template", [{"entry": name, "base": base} for name, _ in eps_t for base in TEMPLATE_BASES], lambda c: template_case(c, eps_t), exhaustive=True, stop_after=3)

    ctx.sweep("structured-documents", [{"kind": k} for k in sorted(STRUCTURE_SIZES)], structured_case, exhaustive=True, stop_after=3)

    # entry points
    sub = ctx.sub("entry-points")
    t0 = time.time()
    eps = entry_points()
    if ctx.shard == 0:
        sub.notes.append("%d entry points: %s" % (len(eps), "; ".join(n for n, f in eps)))
    work = []
    for name, fn in eps:
        fams = chosen(GENERIC, 1, 2, None if ctx.thorough else 120, (ctx.seed, name))
        if ctx.thorough and ("loads" in name or "add" in name):
            fams = fams[:6000]
        # what stands behind a date or a digest in a value is reached only by inputs that carry one (no pattern needed to know that)
        fams = fams + [(run, pump, suffix) for run in GENERIC_RUNS for pump in GENERIC + [".1", ".a", "-1", "1.", "a.", ".n", ":1"] for suffix in ("", "!", "-x")]
        for fam in fams:
            work.append((name, fam))
    slow = {}
    for i, (name, fam) in enumerate(work):
        if i % ctx.nshards != ctx.shard or name in failed:
            continue
        case = {"entry": name, "family": list(fam)}
        sub.evaluations += 1
        try:
            info = entry_case(case, eps)
        except Violation as v:
            ctx._violation("entry-points", case, v)
            failed.add(name)
            continue
        ctx._account(sub, case, info, True)
        slow.setdefault(name, []).append((info["t"], fam, case))
    for name, lst in slow.items():
        if name in failed:
            continue
        lst.sort(key=lambda x: -x[0])
        for t, fam, case in lst[:k]:
            sub.evaluations += 1
            fcase = dict(case, follow_up=True, tier=ctx.tier)
            try:
                entry_case(fcase, eps)
            except Violation as v:
                ctx._violation("entry-points", fcase, v)
    sub.wall += time.time() - t0


def _lengths(case):
    return ([48, 64, 96, 128, 192, 256, 384], 3.0) if case.get("tier") == "thorough" else ([48, 64, 96, 128, 192], 2.0)


def pattern_case(case):
    compiled = re.compile(case["pattern"], case["flags"])
    op = getattr(compiled, case["kind"])
    fn_for = (lambda s: op("", s)) if case["kind"] == "sub" else (lambda s: op(s))
    fam = tuple(case["family"])
    name = "pattern %r .%s" % (case["pattern"], case["kind"])
    if case.get("follow_up"):
        lengths, cap = _lengths(case)
        follow_up(name, fn_for, fam, lengths, cap)
        return {"nontrivial": False, "labels": ["follow-up"], "t": 0}
    t = screen(name, fn_for, fam, None)
    s = instance(fam, 24)
    m = compiled.match(s) if case["kind"] in ("match", "search", "fullmatch") else None
    rejected = m is None or m.end() != len(s)
    return {"nontrivial": rejected, "labels": ["rejected" if rejected else "accepted"], "t": t}


def entry_case(case, eps=None):
    eps = eps or entry_points()
    fn = dict(eps)[case["entry"]]
    fam = tuple(case["family"])
    name = "entry point %s" % case["entry"]
    if case.get("follow_up"):
        lengths, cap = _lengths(case)
        follow_up(name, fn, fam, lengths, cap)
        return {"nontrivial": False, "labels": ["follow-up"], "t": 0}
    t = screen(name, fn, fam, None)
    rejected = False
    try:
        r = fn(instance(fam, 24))
        rejected = r is False or r == (None, None, None)
    except Exception:  # noqa
        rejected = True
    return {"nontrivial": rejected, "labels": ["rejected" if rejected else "accepted"], "t": t}


REPLAY = {"input-as-template": template_case, "structured-documents": structured_case, "number-shaped-fields": number_case, "patterns": pattern_case, "entry-points": entry_case, "input-as-pattern": taint_case}
QUICK_JOBS = 8
