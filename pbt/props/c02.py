"""C02 Image manifests survive a write/read cycle unchanged."""
import json

from hypothesis import strategies as st

from pbt import gen
from pbt import im as imm
from pbt.props.c01 import diff
from pbt.runner import must, check
from pbt.poison import poison

PROPERTY = "C02"
LEVEL = "exploration"
RULE = ("Hypothesis-generated image manifests: 0-8 image records with all 15 attributes (every supported type/format, sizes "
        "to 2^45, null/non-empty volume ids, null/32-char implanted md5, 1-3 checksum types, unified + additional variants), "
        "each filed under 1-3 (variant, arch) cells either as ONE shared Image object or as distinct objects with the same "
        "path, identity duplicates with equal checksums, occasionally emptied cells; built through Images.add in a generated "
        "order, dumped and re-read. Oracle = per-cell multiset of 15-attribute tuples and JSON document computed from the "
        "description + byte-identical second dump. Non-trivial = >=2 images in a cell, or an image in >=2 cells, or a "
        "unified image; distinct = SHA-1 of the description. The written manifest is then changed through its images' attributes (size, mtime, bootable, volume id) and written again; cells and document are compared with the changed description. Checksum type names come in any spelling. Sub-check agreed-or-refused: records at the border of the documented domain (additional variants on non-unified images, tuples, zero counts, odd paths, odd checksum tables ...) are offered; the library refuses them or they come back as they were.")
ASSUMPTIONS = ["json (stdlib) is a correct JSON reader", "header version is set to 1.2 explicitly, as callers that build manifests do"]
FLOORS = {"distinct_nontrivial": 300, "roundtrip:shared-object": 50, "roundtrip:unified": 100, "roundtrip:size>=2^32": 100}

case_strategy = st.fixed_dictionaries({"desc": imm.images_desc(), "plan": st.sampled_from([0, 1, 2, 3, 4]), "past": gen.reader_past})


def roundtrip(case):
    from productmd.images import Images
    desc = case["desc"]
    obj = must("build", imm.build_images, desc, case.get("plan", 0))
    text = must("dumps-valid-object", obj.dumps)
    again = gen.give_past(Images(), case.get("past", "fresh"))
    must("loads", again.loads, text)
    want, got = imm.expected_cells(desc), imm.snap_cells(again)
    got = {k: v for k, v in got.items() if v}
    check(want == got, "cells-differ", lambda: "cells after reload differ from the description: missing %r, unexpected %r, changed %r" % (
        sorted(set(want) - set(got)), sorted(set(got) - set(want)), [k for k in want if k in got and want[k] != got[k]][:2]))
    for variant in again.images:
        for arch in again.images[variant]:
            for img in again.images[variant][arch]:
                check(type(img.size) is int and type(img.mtime) is int and type(img.bootable) is bool, "attribute-type",
                      "size/mtime/bootable types after reload: %r %r %r" % (type(img.size), type(img.mtime), type(img.bootable)))
    d = diff(imm.expected_compose(desc["compose"]), imm.snap_compose(again.compose))
    check(d is None, "compose-section-differs", lambda: d)
    text2 = must("second-dumps", again.dumps)
    check(text2 == text, "second-dump-differs", lambda: "first and second dump differ: %s" % diff(json.loads(text), json.loads(text2)))
    d = diff(imm.expected_doc(desc), json.loads(text))
    check(d is None, "document-differs-from-description", lambda: "expected document vs dumps(): %s" % d)
    # the manifest that was just written is changed through its images' attributes and written again
    desc2 = must("modify-existing-manifest", imm.modify_images, desc, obj)
    text3 = must("dumps-after-change", obj.dumps)
    third = gen.give_past(Images(), case.get("past", "fresh"))
    must("loads-after-change", third.loads, text3)
    want2, got2 = imm.expected_cells(desc2), {k: v for k, v in imm.snap_cells(third).items() if v}
    check(want2 == got2, "cells-differ-after-change", lambda: "manifest written, changed in place and written again: re-read cells differ from the changed description: %r" % (
        [k for k in want2 if want2.get(k) != got2.get(k)][:2],))
    d = diff(imm.expected_doc(desc2), json.loads(text3))
    check(d is None, "document-differs-after-change", lambda: "expected document vs dumps() after an in-place change: %s" % d)
    poison(obj), poison(again), poison(third)
    return {"nontrivial": imm.is_nontrivial(desc), "labels": imm.labels(desc) + ["reader-past:" + case.get("past", "fresh")]}


# ---- whatever the library agrees to write ---------------------------------------------------------------------------------
# The statement starts with "every image the library AGREES to write": records at the border of the documented domain are
# offered as well.  Whether they are refused is C06's question; if the library writes them, they come back as they were.
BORDER = [("additional_variants", ["Client"]), ("additional_variants", ["Client", "Server"]), ("additional_variants", ("Client",)), ("unified", True), ("unified", False),
          ("subvariant", ""), ("volume_id", None), ("implant_md5", None), ("disc_number", 0), ("disc_count", 0), ("size", 1), ("mtime", 0), ("mtime", -1),
          ("bootable", False), ("bootable", True), ("format", "iso"), ("type", "dvd"), ("checksums", {"md5": ""}), ("checksums", {"SHA256": "ab"}), ("arch", "src"),
          ("path", "a//b"), ("path", "./a"), ("path", "a/"), ("size", 2 ** 64), ("disc_number", 10 ** 9)]
border_strategy = st.fixed_dictionaries({"rec": imm.image_record(), "edits": st.lists(st.integers(0, len(BORDER) - 1), min_size=1, max_size=3)})


def agreed_case(case):
    from productmd.images import Images
    rec = dict(case["rec"])
    for i in case["edits"]:
        rec[BORDER[i][0]] = BORDER[i][1]
    im = Images()
    im.header.version = "1.2"
    imm.fill_compose(im.compose, {"id": "F-22-20160622.0", "type": "production", "date": "20160622", "respin": 0, "label": None, "final": False})
    img = imm.make_image(im, rec)
    try:
        im.add("Server", "x86_64", img)
        text = im.dumps()
    except (ValueError, TypeError):
        return {"nontrivial": True, "labels": ["refused"]}
    again = Images()
    must("loads-what-was-written", again.loads, text)
    got = [dict((k, getattr(i2, k)) for k in imm.ATTRS) for i2 in again.images.get("Server", {}).get("x86_64", [])]
    check(len(got) == 1, "image-lost", lambda: "one image written, %d read back" % len(got))
    want = dict((k, list(rec[k]) if isinstance(rec[k], tuple) else rec[k]) for k in imm.ATTRS)
    d = diff(want, got[0])
    check(d is None, "written-image-differs-after-reload", lambda: "the library agreed to write the image, but it came back changed: %s" % d)
    return {"nontrivial": True, "labels": ["written"]}


def run(ctx):
    ctx.forall("roundtrip", case_strategy, roundtrip, ctx.n(1600, 64000))
    ctx.forall("agreed-or-refused", border_strategy, agreed_case, ctx.n(1200, 48000))


REPLAY = {"roundtrip": roundtrip, "agreed-or-refused": agreed_case}
