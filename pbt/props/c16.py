"""C16 Checksums recorded in metadata are the true digests of the right files."""
import hashlib
import os
import shutil
import tempfile

from hypothesis import strategies as st

from pbt import gen, ti as tim
from pbt.runner import must, check, refuses, Violation

PROPERTY = "C16"
LEVEL = "exploration"
RULE = ("(compute) files of sizes {0, 1, 2^20-1, 2^20, 2^20+1, 2*2^20, 3*2^20+5} and random sizes <= 64 KiB with generated "
        "content, every fixed-length algorithm hashlib offers by name, relative paths with redundant './', '//' and 'x/../' "
        "components: Checksums.add / compute_checksum must record hashlib.new(alg, whole content).hexdigest() (one-shot, "
        "independent of the chunk loop) under the reference-normalised path; absolute paths are refused with the table "
        "unchanged. (sections) hand-written [checksums] sections mixing 'type:value' entries with bare digests of length "
        "32/40/64 and of unrecognised lengths (incl. 0, 31, 33, 39, 41, 63, 65) in generated order, inside current-format "
        "and pre-productmd documents: loaded table must equal the text entry by entry, or the document must be rejected "
        "iff it contains an unrecognised bare value. (image) add_checksum sequences with equal, different and empty values "
        "against a dict model. Non-trivial = file >= 1 MiB or non-canonical path / section mixing >= 2 entry styles / "
        "sequence with a conflicting add; distinct = SHA-1 of the case. Each file is rewritten with different content of the same size and the same mtime and hashed again in another tree (no stale digest). Adds that fail while computing (missing file, no root, unknown algorithm) leave the table unchanged; every path is looked up through checksums[path]; type names in any spelling.")
ASSUMPTIONS = ["hashlib one-shot digests are the standard digests", "XOF algorithms (shake_*) have no fixed-length standard digest and are excluded (counted)"]
FLOORS = {"compute": 60, "sections": 300, "sections:rejected": 100, "image-add-checksum": 200}

MIB = 2 ** 20
BOUNDARY_SIZES = [0, 1, MIB - 1, MIB, MIB + 1, 2 * MIB, 3 * MIB + 5]


def fixed_algorithms():
    names, xof = [], []
    for name in sorted(hashlib.algorithms_available):
        try:
            h = hashlib.new(name)
            h.hexdigest()
            names.append(name)
        except TypeError:
            xof.append(name)
        except ValueError:
            pass   # listed but not usable in this build (e.g. FIPS)
    return names, xof


ALGS, XOFS = fixed_algorithms()

_comp = st.text(st.sampled_from(list("abcXYZ019._-+ ")), min_size=1, max_size=6).filter(lambda s: s.strip() == s and s not in (".", ".."))
compute_strategy = st.fixed_dictionaries({
    "block_hex": st.binary(min_size=1, max_size=257).map(lambda b: b.hex()),
    "size": st.one_of(st.sampled_from(BOUNDARY_SIZES), st.integers(0, 65536), st.sampled_from([MIB - 1, MIB, MIB + 1])),
    "alg": st.sampled_from(ALGS),
    "dirs": st.lists(_comp, max_size=2), "file": _comp,
    "noise": st.lists(st.sampled_from(["./", "//", "x/../", "./././", "y/z/../../"]), max_size=3),
    "noise_at": st.integers(0, 3),
})


def content_of(case):
    block = bytes.fromhex(case["block_hex"])
    reps = case["size"] // len(block) + 1
    return (block * reps)[:case["size"]]


def compute_case(case):
    from productmd.treeinfo import TreeInfo, compute_checksum
    data = content_of(case)
    want = hashlib.new(case["alg"], data).hexdigest()
    clean = "/".join(case["dirs"] + [case["file"]])
    comps = case["dirs"] + [case["file"]]
    at = case["noise_at"] % len(comps)
    noisy = "/".join(comps[:at]) + ("/" if at else "") + "".join(case["noise"]) + "/".join(comps[at:])
    if noisy.startswith("/"):
        noisy = "." + noisy          # keep it relative
    check(tim._norm_rel(noisy) == clean, "harness-normaliser", "harness bug: %r does not normalise to %r" % (noisy, clean))
    tmp = tempfile.mkdtemp(prefix="c16-")
    try:
        full = os.path.join(tmp, *comps)
        os.makedirs(os.path.dirname(full), exist_ok=True)
        with open(full, "wb") as fo:
            fo.write(data)
        got = must("compute_checksum", compute_checksum, full, case["alg"])
        check(got == want, "digest-differs", lambda: "compute_checksum(%d bytes, %s) = %s, hashlib one-shot says %s" % (len(data), case["alg"], got, want))
        ti = TreeInfo()
        must("add-computing", ti.checksums.add, noisy, case["alg"], None, tmp)
        table = {k: list(v) for k, v in ti.checksums.checksums.items()}
        check(table == {clean: [case["alg"], want]}, "recorded-entry-differs", lambda: "add(%r) recorded %r, expected %r" % (noisy, table, {clean: [case["alg"], want]}))
        # an explicit value is recorded as given, under the normalised path
        must("add-given", ti.checksums.add, noisy + "2", case["alg"], "f00d")
        check(list(ti.checksums.checksums.get(clean + "2", ())) == [case["alg"], "f00d"], "given-entry-differs", "%r" % (ti.checksums.checksums,))
        # the digest is that of the content on disk NOW: rewrite the file with different content of the same size and the
        # same mtime (cp -p, rsync -t, SOURCE_DATE_EPOCH builds ...) and record it again in another tree
        if data:
            st_before = os.stat(full)
            other = bytes((b + 1) % 256 for b in data[:4096]) + data[4096:]
            with open(full, "wb") as fo:
                fo.write(other)
            os.utime(full, ns=(st_before.st_atime_ns, st_before.st_mtime_ns))
            ti2 = TreeInfo()
            must("add-computing-after-rewrite", ti2.checksums.add, clean, case["alg"], None, tmp)
            want2 = hashlib.new(case["alg"], other).hexdigest()
            got2 = list(ti2.checksums.checksums.get(clean, ()))
            check(got2 == [case["alg"], want2], "stale-digest-after-rewrite", lambda: "file rewritten (same size and mtime): recorded %r, content on disk has %s" % (got2, want2))
            check(must("compute_checksum", compute_checksum, full, case["alg"]) == want2, "stale-digest-after-rewrite", "compute_checksum returned the digest of the old content")
        # absolute paths are refused and change nothing
        before = {k: list(v) for k, v in ti.checksums.checksums.items()}
        refuses("absolute-path", (ValueError,), ti.checksums.add, full, case["alg"], None, tmp)
        refuses("absolute-path", (ValueError,), ti.checksums.add, "/" + noisy, case["alg"], "abc")
        check({k: list(v) for k, v in ti.checksums.checksums.items()} == before, "refused-add-changed-table", "table changed by a refused add")
        # an add that cannot compute its digest (no such file, no root directory, unknown algorithm) fails and records nothing:
        # neither a new entry nor a changed one (a path never carries a checksum that was not given or computed for it)
        for label, args in (("missing-file", (clean + ".missing", case["alg"], None, tmp)), ("missing-file-over-existing-entry", (noisy, case["alg"], None, tmp + "-elsewhere")),
                            ("no-root-directory", (clean + ".noroot", case["alg"], None, None)), ("unknown-algorithm", (noisy, "no-such-algorithm", None, tmp))):
            try:
                ti.checksums.add(*args)
            except Exception:  # noqa
                pass
            else:
                raise Violation("add-without-digest-succeeded", "add%r returned normally although no digest can be computed (%s)" % (args[:3], label))
            now = {k: list(v) for k, v in ti.checksums.checksums.items()}
            check(now == before, "failed-add-changed-table", lambda: "a failing add (%s) changed the table: %r -> %r" % (label, before, now))
    finally:
        shutil.rmtree(tmp, ignore_errors=True)
    return {"nontrivial": len(data) >= MIB or noisy != clean, "labels": [case["alg"]] + ([">=1MiB"] if len(data) >= MIB else []) + (["noisy-path"] if noisy != clean else [])}


# ---- [checksums] sections -----------------------------------------------------------------------------------------
HEX = "0123456789abcdef"
STATED_OLDER = ["0.1", "0.2", "0.3", "1.0", "1.1"]
_bare_len = st.one_of(st.sampled_from([32, 40, 64]), st.sampled_from([0, 1, 10, 31, 33, 39, 41, 63, 65, 128, 56, 96]), st.integers(0, 70))
_entry = st.one_of(
    st.fixed_dictionaries({"style": st.just("typed"), "type": tim.checksum_type, "value": tim.checksum_value}),
    st.fixed_dictionaries({"style": st.just("bare"), "len": _bare_len, "fill": st.sampled_from(list(HEX))}),
    st.fixed_dictionaries({"style": st.just("bare"), "len": st.sampled_from([32, 40, 64]), "fill": st.sampled_from(list(HEX))}),
    # the right length, but no digest: "32/40/64 hex digits - and anything else rejected"
    st.fixed_dictionaries({"style": st.just("bare"), "len": st.sampled_from([32, 40, 64]), "fill": st.sampled_from(list(HEX)),
                           "spoil": st.sampled_from(["z", "G", "-", "_", " ", "+", "/", ".", "\u00e9", "\u0663"]), "at": st.integers(0, 63)}),
)
_key = st.one_of(tim.option_name, tim.ini_path.filter(lambda p: "=" not in p and ":" not in p),
                 st.sampled_from(["x86_64/os/images/boot.iso", "Server/x86_64/os/repodata/repomd.xml", "images/boot.iso", "os/images/boot.iso", "a/os/b",
                                  "repodata/repomd.xml", "LiveOS/squashfs.img"])).map(tim._norm_rel).filter(
    lambda p: p and p[0] not in "#;[/" and p.strip() == p)
_raw_key = st.sampled_from(["./images/boot.iso", "images//boot.iso", "a/../b", "images/./boot.iso", "x/../images/boot.iso", "repodata/", "a/b/.."])
section_strategy = st.fixed_dictionaries({
    "entries": st.lists(st.tuples(st.one_of(_key, _key, _key, _raw_key), _entry), min_size=1, max_size=6, unique_by=lambda t: t[0]),
    "format": st.sampled_from(["current", "current", "pre-productmd", "pre-productmd"] + STATED_OLDER),
})

CURRENT_HEAD = ("[header]\ntype = productmd.treeinfo\nversion = 1.2\n\n[release]\nname = Foo\nshort = F\nversion = 1\n\n"
                "[tree]\narch = x86_64\nbuild_timestamp = 1\nplatforms = x86_64\nvariants = Foo\n\n"
                "[variant-Foo]\nid = Foo\nuid = Foo\nname = Foo\ntype = variant\n\n")
OLD_HEAD = "[general]\nfamily = Foo\nversion = 1\narch = x86_64\ntimestamp = 1\nvariant = Foo\n\n"


def head_for(fmt):
    """the file head of a format: current (1.2), pre-productmd (no header), or a STATED older version"""
    if fmt == "current":
        return CURRENT_HEAD
    if fmt == "pre-productmd":
        return OLD_HEAD
    head = CURRENT_HEAD.replace("version = 1.2", "version = " + fmt)
    if fmt.startswith("0."):
        head = head.replace("type = productmd.treeinfo\n", "").replace("[release]", "[product]")
    elif fmt == "1.0":
        head = head.replace("type = productmd.treeinfo\n", "")
    return head


def entry_text(e, i):
    if e["style"] == "typed":
        return "%s:%s" % (e["type"], e["value"])
    # distinct digits per entry so that a value leaking from another entry is visible
    body = ((e["fill"] + HEX[i % 16]) * 64)[:e["len"]]
    if e.get("spoil"):
        at = e["at"] % len(body)
        if e["spoil"] == " " and at in (0, len(body) - 1):
            at = 1          # a blank at either end is not part of the value
        body = body[:at] + e["spoil"] + body[at + 1:]
    return body


def section_case(case):
    from productmd.treeinfo import TreeInfo
    lines, want, bad = [], {}, False
    for i, (key, e) in enumerate(case["entries"]):
        text = entry_text(e, i)
        lines.append("%s = %s" % (key, text))
        if e["style"] == "typed":
            want[key] = [e["type"], e["value"]]
        elif len(text) in (32, 40, 64) and not e.get("spoil"):
            want[key] = [{32: "md5", 40: "sha1", 64: "sha256"}[len(text)], text]
        else:
            bad = True
    doc = head_for(case["format"]) + "[checksums]\n" + "\n".join(lines) + "\n"
    ti = TreeInfo()
    styles = set(e["style"] + (":ok" if e["style"] == "typed" or (len(entry_text(e, i)) in (32, 40, 64) and not e.get("spoil")) else ":not-a-digest" if e.get("spoil") else ":unknown-length") for i, (k, e) in enumerate(case["entries"]))
    if bad:
        try:
            ti.loads(doc)
        except Exception:  # noqa ("rejected": exception type not constrained by the statement)
            return {"nontrivial": len(styles) >= 2, "labels": ["rejected", case["format"]]}
        got = {k: list(v) for k, v in ti.checksums.checksums.items()}
        raise Violation("unrecognised-bare-digest-accepted", "section %r loaded as %r" % (lines, got))
    if len(lines) % 2 and case["format"] != "pre-productmd":
        # the reading object already holds a value for one of the paths (recorded by hand before the file was read): after the
        # read, every path of the file maps to what the FILE gives for it
        first = sorted(want)[0]
        ti.checksums.checksums[first] = ["sha512", "00" * 64]          # under exactly the spelling the file uses (add() would normalise it)
    must("load-legal-section", ti.loads, doc)
    got = {k: list(v) for k, v in ti.checksums.checksums.items()}
    check(got == want, "table-differs-from-text", lambda: "section %r loaded as %r, the text says %r" % (lines, got, want))
    # the lookup by path answers with the entry of exactly that path (two spellings of one location are two entries)
    for key in want:
        one = must("lookup-by-path", lambda: ti.checksums[key])
        check(list(one) == want[key], "lookup-differs-from-text", lambda: "checksums[%r] = %r, the text says %r" % (key, list(one), want[key]))
    # write + read again: still exactly what the text said
    again = TreeInfo()
    must("reload", again.loads, must("dumps", ti.dumps))
    got = {k: list(v) for k, v in again.checksums.checksums.items()}
    check(got == want, "table-differs-after-rewrite", lambda: "after write/read: %r, the text says %r" % (got, want))
    return {"nontrivial": len(styles) >= 2, "labels": ["accepted", case["format"]]}


# ---- absolute paths never get into the table -----------------------------------------------------------------------------
_abs_key = st.one_of(
    st.sampled_from(["/abs/repomd.xml", "/mnt/x86_64/os//images/boot.iso", "//f", "/m/a/os/f", "/os//f", "/a/os/b/os//c", "/mnt/tree/os///x", "/images/boot.iso"]),
    st.builds(lambda pre, mid, rest: "/" + pre + mid + rest, st.sampled_from(["mnt/x86_64", "m", "srv/tree/7", ""]), st.sampled_from(["/os/", "/os//", "/", "/os///", "/OS/"]),
              st.sampled_from(["images/boot.iso", "f", "repodata/repomd.xml", "/f"])))
absolute_strategy = st.fixed_dictionaries({"key": _abs_key, "format": st.sampled_from(["current", "current", "pre-productmd", "pre-productmd"] + STATED_OLDER), "others": st.lists(_key, max_size=2, unique=True)})


def absolute_case(case):
    """whatever a reader makes of an absolute path in the file (cuts it at the tree root, refuses the file): no absolute path is in
    the table afterwards, and what was accepted can be written and read again"""
    from productmd.treeinfo import TreeInfo
    lines = ["%s = sha256:%s" % (k, "ab" * 32) for k in [case["key"]] + [o for o in case["others"] if o != case["key"]]]
    doc = head_for(case["format"]) + "[checksums]\n" + "\n".join(lines) + "\n"
    ti = TreeInfo()
    try:
        ti.loads(doc)
    except Exception:  # noqa (refused)
        return {"nontrivial": True, "labels": ["rejected", case["format"]]}
    held = sorted(ti.checksums.checksums)
    check(not [k for k in held if k.startswith("/")], "absolute-path-in-table", lambda: "%s file with the checksum path %r: the table holds %r" % (case["format"], case["key"], held))
    # only a file that states no version at all is a pre-productmd file, whose absolute paths are made relative
    check(case["format"] == "pre-productmd", "absolute-path-accepted", lambda: "a file stating format %s with the checksum path %r was loaded (table %r)" % (case["format"], case["key"], held))
    again = TreeInfo()
    must("reload-accepted", again.loads, must("dumps-accepted", ti.dumps))
    return {"nontrivial": True, "labels": ["made-relative", case["format"]]}


# ---- Image.add_checksum ---------------------------------------------------------------------------------------------
_val = st.sampled_from(["aaa", "bbb", "", None, "AAA", "aaa "])
addsum_strategy = st.lists(st.tuples(st.sampled_from(["md5", "sha256", "sha1", "SHA256", "Sha1", "MD5", "sha-256", "x"]), _val), min_size=1, max_size=10)   # type names are taken as given (any spelling a producer uses)


def addsum_case(ops):
    from productmd.images import Images, Image
    img = Image(Images())
    model = {}
    conflicts = 0
    for i, (ctype, value) in enumerate(ops):
        if ctype in model:
            if value and value != model[ctype]:
                refuses("conflicting-add", (ValueError,), img.add_checksum, None, ctype, value)
                conflicts += 1
            else:
                got = must("repeat-add", img.add_checksum, None, ctype, value)
                check(got == model[ctype], "returned-value", "step %d returned %r, recorded %r" % (i, got, model[ctype]))
        else:
            got = must("first-add", img.add_checksum, "/root", ctype, value)
            model[ctype] = value
            check(got == value, "returned-value", "step %d returned %r" % (i, got))
        check(img.checksums == model, "checksums-differ-from-model", lambda: "after step %d: %r vs model %r" % (i, img.checksums, model))
    return {"nontrivial": conflicts > 0, "labels": ["conflict"] if conflicts else []}


def run(ctx):
    ctx.forall("compute", compute_strategy, compute_case, ctx.n(320, 6400))
    ctx.sub("compute").notes.append("algorithms: %s; excluded XOFs: %s" % (",".join(ALGS), ",".join(XOFS)))
    ctx.sub("compute").excluded_known = 0

    def boundary():
        for alg in ALGS:
            for size in BOUNDARY_SIZES:
                yield {"block_hex": "00ff10a55a0d0a1a", "size": size, "alg": alg, "dirs": ["d"], "file": "f", "noise": ["./", "x/../"], "noise_at": 1}
    ctx.sweep("compute-boundaries", boundary(), compute_case, exhaustive=True)
    ctx.forall("sections", section_strategy, section_case, ctx.n(2400, 80000))
    ctx.forall("absolute-keys", absolute_strategy, absolute_case, ctx.n(400, 10000))
    ctx.forall("image-add-checksum", addsum_strategy, addsum_case, ctx.n(1000, 30000))


REPLAY = {"absolute-keys": absolute_case, "compute": compute_case, "compute-boundaries": compute_case, "sections": section_case, "image-add-checksum": addsum_case}
