"""C18 A dump that fails validation leaves the destination file untouched (fault enumeration)."""
import copy
import os
import pathlib
import shutil
import tempfile

from hypothesis import strategies as st

from pbt import ci as cim, im as imm, ti as tim, manifests as mf
from pbt.runner import must, check, Violation

PROPERTY = "C18"
LEVEL = "fault_enumeration"
RULE = ("For generated valid objects of all seven formats (composeinfo, images, rpms, modules, extra_files, treeinfo - dumped "
        "with and without an explicit main variant -, discinfo) the object graph is walked and EVERY _validate* method of "
        "EVERY reachable metadata object (header, compose, release, base product, each variant, its paths and nested "
        "release, each image, tree, images, stage2, checksums, media ...) is made to raise ValueError in turn, from its 1st "
        "and from its 2nd call on (dump() validates once up front, nested writers validate again when reached); in addition "
        "real invalid values are planted at nested positions. The destination either holds a previous good dump or does not "
        "exist. After every dump that raised, the bytes at the path must equal the bytes before (or the path must still not "
        "exist) and the directory must hold no stray file; with no fault the dump must succeed and change the file. One "
        "evaluation = one (object, fault point, k, destination state) trial; non-trivial = the fault fired after the "
        "top-level validation had passed (inside a nested writer); distinct = object hash + fault point. Also planted: values no validator looks at and no writer can write (non-string image name, a frozenset in a payload), and a size class of large objects (25 000 / 70 000 manifest entries, thousands of images / variants) for size-dependent writer paths. Destinations are also hard-linked, symlinked, spelled as os.PathLike, or handed over as a stream opened for update. Sub-check ascii-locale: a child process under LC_ALL=C / POSIX (no UTF-8 coercion) dumps trees and disc descriptions carrying non-ASCII text; if the dump fails the destination is as it was. Values that pass every outward check but do not survive the trip are planted too (a dump failing after the write is a failed dump).")
ASSUMPTIONS = ["faults are injected by shadowing the validator on the instance inside the harness process; no hook in productmd is needed",
               "a failure of json/ConfigParser serialisation itself (non-serialisable payload) is not a validation failure and is not injected"]
FLOORS = {"distinct_nontrivial": 1500, "composeinfo": 200, "images": 200, "treeinfo": 200, "rpms": 20, "modules": 20, "extra_files": 20}


def reachable(root):
    """every MetadataBase instance reachable from root, with an attribute path (back references are skipped by identity)"""
    from productmd.common import MetadataBase
    seen, out = set(), []

    def visit(obj, path):
        if isinstance(obj, MetadataBase):
            if id(obj) in seen:
                return
            seen.add(id(obj))
            out.append((path, obj))
            for name, value in sorted(vars(obj).items()):
                if name in ("_metadata", "parent", "_variant"):
                    continue
                visit(value, "%s.%s" % (path, name))
        elif isinstance(obj, dict):
            for k in sorted(obj, key=repr):
                visit(obj[k], "%s[%r]" % (path, k))
        elif isinstance(obj, (list, tuple, set, frozenset)):
            items = sorted(obj, key=lambda x: repr(getattr(x, "path", x))) if isinstance(obj, (set, frozenset)) else obj
            for i, v in enumerate(items):
                visit(v, "%s[%d]" % (path, i))
    visit(root, "obj")
    return out


def fault_points(root):
    pts = []
    for path, inst in reachable(root):
        for name in sorted(n for n in dir(inst) if n.startswith("_validate") and callable(getattr(inst, n))):
            for k in (1, 2):
                pts.append((path, inst, name, k))
    return pts


class Injected(ValueError):
    pass


def run_trials(kind, obj, dump, change):
    """dump(path) writes obj; change() modifies obj validly so that a successful dump alters the file"""
    tmp = tempfile.mkdtemp(prefix="c18-")
    units, trials = [], 0
    try:
        good = os.path.join(tmp, "good")
        must("dump-valid-object", dump, good)
        with open(good, "rb") as fo:
            old = fo.read()
        check(len(old) > 0, "sanity-empty-dump", "valid dump is empty")
        change()
        fresh = os.path.join(tmp, "fresh")
        must("dump-valid-object", dump, fresh)
        with open(fresh, "rb") as fo:
            new = fo.read()
        os.unlink(fresh)
        os.unlink(good)
        check(new != old, "sanity-no-change", "harness: modified object dumps to the same bytes")
        work = os.path.join(tmp, "d")
        os.mkdir(work)
        dest = os.path.join(work, "metadata")
        twin = os.path.join(tmp, "twin")          # second name (hard link) / real file behind a symlink
        for n_fp, (path, inst, name, k) in enumerate(fault_points(obj)):
            for existing in (True, False, ["hardlink", "symlink"][n_fp % 2]):
                for leftover in (dest, twin):
                    if os.path.lexists(leftover):
                        os.unlink(leftover)
                if existing is True:
                    with open(dest, "wb") as fo:
                        fo.write(old)
                elif existing == "hardlink":
                    # compose tooling hard-links trees: the destination has a second name
                    with open(dest, "wb") as fo:
                        fo.write(old)
                    os.link(dest, twin)
                elif existing == "symlink":
                    with open(twin, "wb") as fo:
                        fo.write(old)
                    os.symlink(twin, dest)
                orig = getattr(inst, name)
                calls = [0]

                def faulty(*a, **kw):
                    calls[0] += 1
                    if calls[0] >= k:
                        raise Injected("injected failure of %s.%s (call %d)" % (path, name, calls[0]))
                    return orig(*a, **kw)
                setattr(inst, name, faulty)
                raised = False
                # the destination as the caller spells it: a str, or any os.PathLike (whether or not that is supported, a failing
                # dump leaves the file alone)
                spelled = pathlib.Path(dest) if (n_fp // 2) % 3 == 2 else dest
                try:
                    try:
                        dump(spelled)
                    except Injected:
                        raised = True
                    except Exception as exc:  # noqa
                        if spelled is dest:
                            raise Violation("unexpected-exception-under-fault", "%s.%s k=%d: %s: %s" % (path, name, k, type(exc).__name__, exc))
                        raised = True          # this tree does not take os.PathLike destinations: one more way for a dump to fail
                finally:
                    delattr(inst, name)
                trials += 1
                where = "%s %s.%s k=%d %s" % (kind, path, name, k, {True: "existing", False: "absent"}.get(existing, existing))
                if raised:
                    if existing:
                        check(os.path.exists(dest), "destination-removed-by-failed-dump", "%s: the destination is gone" % where)
                        with open(dest, "rb") as fo:
                            now = fo.read()
                        check(now == old, "destination-changed-by-failed-dump",
                              lambda: "%s: destination had %d bytes, now %d (%s)" % (where, len(old), len(now), "truncated" if not now else "rewritten"))
                        if existing == "symlink":
                            check(os.path.islink(dest), "destination-changed-by-failed-dump", "%s: the symlink was replaced" % where)
                    else:
                        check(not os.path.exists(dest), "file-created-by-failed-dump", "%s: a file was created" % where)
                    listing = sorted(os.listdir(work))
                    check(listing == (["metadata"] if existing else []), "stray-file", "%s: directory now holds %r" % (where, listing))
                    nested = not (inst is obj and k == 1)
                    if nested:
                        units.append("%s.%s#%d/%s" % (path, name, k, {True: "e", False: "a"}.get(existing, existing)))
                else:
                    # the validator is reached fewer than k times: no fault happened, the dump must simply have worked
                    with open(dest, "rb") as fo:
                        now = fo.read()
                    check(now == new, "successful-dump-wrong-content", "%s: no fault fired but the file does not hold the new dump" % where)
    finally:
        shutil.rmtree(tmp, ignore_errors=True)
    return units, trials


def real_invalid_trials(kind, obj, dump, plants):
    """plants: list of (label, set_fn, unset_fn): real invalid values at nested positions"""
    tmp = tempfile.mkdtemp(prefix="c18r-")
    units, trials = [], 0
    try:
        dest = os.path.join(tmp, "metadata")
        must("dump-valid-object", dump, dest)
        with open(dest, "rb") as fo:
            old = fo.read()
        good = old
        for label, plant, restore in plants:
            for existing in (True, False, "stream", "pathlike", "crlf", "not-text"):
                old = good
                if existing == "crlf":
                    # the last good copy is whatever is there - as another tool, another platform or an older version left it
                    old = good.replace(b"\n", b"\r\n") + b"\r"
                elif existing == "not-text":
                    old = b"\xff\xfe\x00" + good + b"\x00\x1a"
                if existing == "stream":
                    # the caller hands over the destination file itself, opened for update (not truncated): the last good copy
                    # is whatever the file holds
                    old = b"# last good copy\n" + good
                if existing:
                    with open(dest, "wb") as fo:
                        fo.write(old)
                elif os.path.exists(dest):
                    os.unlink(dest)
                plant()
                raised = None
                try:
                    try:
                        if existing == "stream":
                            with open(dest, "r+") as stream:
                                dump(stream)
                        elif existing == "pathlike":
                            dump(pathlib.Path(dest))    # the existing destination spelled as an os.PathLike (supported or not)
                        else:
                            dump(dest)
                    except (ValueError, TypeError) as exc:
                        raised = exc
                    except Exception as exc:  # noqa  (still a failed dump: the file must survive)
                        raised = exc
                finally:
                    restore()
                trials += 1
                if raised is None:
                    continue            # whether the value must be refused is C06's question, not this property's
                where = "%s real invalid value %s (%s) %s" % (kind, label, type(raised).__name__, {True: "existing", False: "absent", "pathlike": "existing, spelled as a pathlib.Path", "crlf": "existing, with CR LF line ends",
                                                                                                    "not-text": "existing, holding bytes that are no text"}.get(existing, "existing, handed over as an open stream"))
                if existing:
                    check(os.path.exists(dest), "destination-removed-by-failed-dump", "%s: the destination is gone" % where)
                    with open(dest, "rb") as fo:
                        now = fo.read()
                    check(now == old, "destination-changed-by-failed-dump", lambda: "%s: destination had %d bytes, now %d" % (where, len(old), len(now)))
                else:
                    check(not os.path.exists(dest), "file-created-by-failed-dump", "%s: a file was created" % where)
                check(sorted(os.listdir(tmp)) == (["metadata"] if existing else []), "stray-file", "%s: %r" % (where, sorted(os.listdir(tmp))))
                units.append("real:%s/%s" % (label, {True: "e", False: "a", "pathlike": "p", "crlf": "c", "not-text": "b"}.get(existing, "s")))
    finally:
        shutil.rmtree(tmp, ignore_errors=True)
    return units, trials


def _swap(obj, attr, value):
    saved = []

    def plant():
        saved.append(getattr(obj, attr))
        setattr(obj, attr, value)

    def restore():
        setattr(obj, attr, saved.pop())
    return plant, restore


def _swap_item(container, key, value, missing=object()):
    """plant/restore for one item of a dict"""
    saved = []

    def plant():
        saved.append(container.get(key, missing))
        container[key] = value

    def restore():
        old = saved.pop()
        if old is missing:
            container.pop(key, None)
        else:
            container[key] = old
    return plant, restore


UNWRITABLE = frozenset([1, 2])      # no validator looks at it, and neither JSON nor INI can write it
UNENCODABLE = "caf\udce9"           # a lone surrogate (os.listdir() of a non-UTF-8 file name): passes every validator, cannot be encoded


def _result(kind, units, trials):
    return {"nontrivial": bool(units), "labels": [kind], "units": units, "unit_evaluations": trials}


def composeinfo_case(desc):
    obj = must("build", cim.build_ci, desc, 0)

    def change():
        obj.release.name = obj.release.name + "X"
    units, trials = run_trials("composeinfo", obj, obj.dump, change)
    plants = [("compose.label", ) + _swap(obj.compose, "label", "GA"), ("compose.respin", ) + _swap(obj.compose, "respin", "1"),
              ("release.type", ) + _swap(obj.release, "type", "bogus")]
    variants = [v for p, v in reachable(obj) if type(v).__name__ == "Variant"]
    for v in variants[:6]:
        plants.append(("variant[%s].name" % v.uid, ) + _swap(v, "name", ""))
        plants.append(("variant[%s].type" % v.uid, ) + _swap(v, "type", "bogus"))
        plants.append(("variant[%s].arches" % v.uid, ) + _swap(v, "arches", set()))
    plants.append(("release.name=unencodable", ) + _swap(obj.release, "name", UNENCODABLE))
    for v in variants[:2]:
        plants.append(("variant[%s].name=unencodable" % v.uid, ) + _swap(v, "name", UNENCODABLE))
    for v in variants[:3]:
        arch = sorted(v.arches)[0]
        plants.append(("variant[%s].paths.os_tree[%s]=unwritable" % (v.uid, arch), ) + _swap_item(v.paths.os_tree, arch, UNWRITABLE))
    u2, t2 = real_invalid_trials("composeinfo", obj, obj.dump, plants)
    return _result("composeinfo", units + u2, trials + t2)


def images_case(desc):
    obj = must("build", imm.build_images, desc, 0)

    def change():
        obj.compose.respin = obj.compose.respin + 1
    units, trials = run_trials("images", obj, obj.dump, change)
    plants = [("compose.date", ) + _swap(obj.compose, "date", "2015")]
    imgs = [v for p, v in reachable(obj) if type(v).__name__ == "Image"]
    for img in imgs[:5]:
        plants.append(("image[%s].size" % img.path, ) + _swap(img, "size", "12"))
        plants.append(("image[%s].type" % img.path, ) + _swap(img, "type", "floppy"))
        plants.append(("image[%s].checksums" % img.path, ) + _swap(img, "checksums", {}))
    # keys of several types in one mapping: each key can be written, the mapping cannot be sorted
    for img in imgs[:2]:
        plants.append(("image[%s].checksums[256] next to string keys" % img.path, ) + _swap_item(img.checksums, 256, "ab"))
    plants.append(("images[None] next to named variants", ) + _swap_item(obj.images, None, {}))
    for img in imgs[:3]:
        plants.append(("image[%s].checksums[md5]=unwritable" % img.path, ) + _swap_item(img.checksums, "md5", UNWRITABLE))
        plants.append(("image[%s].volume_id=unencodable" % img.path, ) + _swap(img, "volume_id", UNENCODABLE))
    # cells filed directly in the public mapping under keys add() would refuse: written as they are, not readable again
    for variant in list(obj.images)[:2]:
        cell = next(iter(obj.images[variant].values()), None)
        if cell:
            plants.append(("images[%s][src] set directly" % variant, ) + _swap_item(obj.images[variant], "src", set(cell)))
            plants.append(("images[%s][bogus-arch] set directly" % variant, ) + _swap_item(obj.images[variant], "bogus-arch", set(cell)))
    u2, t2 = real_invalid_trials("images", obj, obj.dump, plants)
    return _result("images", units + u2, trials + t2)


def _manifest_case(kind, cls, build):
    obj = cls()
    mf.fill_compose(obj)
    build(obj)

    def change():
        obj.compose.respin = obj.compose.respin + 1
    units, trials = run_trials(kind, obj, obj.dump, change)
    plants = [("compose.type", ) + _swap(obj.compose, "type", "bogus"), ("compose.respin", ) + _swap(obj.compose, "respin", None),
              ("compose.id", ) + _swap(obj.compose, "id", "")]
    payload = getattr(obj, kind)
    if isinstance(payload, dict):
        plants.append(("payload[zzz]=unwritable", ) + _swap_item(payload, "zzz", UNWRITABLE))
        # keys of several types in one mapping (a variant called None or 5 next to named ones): each can be written, the mapping cannot be sorted
        plants.append(("payload[None] next to named variants", ) + _swap_item(payload, None, {}))
        plants.append(("payload[5] next to named variants", ) + _swap_item(payload, 5, {}))
        plants.append(("payload[zzz]=unencodable", ) + _swap_item(payload, "zzz", {"path": "Packages/" + UNENCODABLE + "-1.0-1.x86_64.rpm"}))
        for variant in sorted(payload)[:1]:
            if isinstance(payload[variant], dict):
                plants.append(("payload[%s][zzz]=unwritable" % variant, ) + _swap_item(payload[variant], "zzz", {"x": UNWRITABLE}))
    u2, t2 = real_invalid_trials(kind, obj, obj.dump, plants)
    return _result(kind, units + u2, trials + t2)


def rpms_case(case):
    from productmd.rpms import Rpms

    def build(obj):
        model = {}
        for op in case["ops"]:
            if mf.rpm_model_apply(model, op):
                mf.rpm_call(obj, op)
    return _manifest_case("rpms", Rpms, build)


def modules_case(case):
    from productmd.modules import Modules

    def build(obj):
        caller, model = mf.ModuleCaller(case["lists"]), {}
        for op in case["ops"]:
            if mf.module_model_apply(model, op, case["lists"]):
                caller.call(obj, op)
    return _manifest_case("modules", Modules, build)


def extra_case(case):
    from productmd.extra_files import ExtraFiles

    def build(obj):
        model = {}
        for op in case["ops"]:
            if mf.extra_model_apply(model, op):
                mf.extra_call(obj, op)
    return _manifest_case("extra_files", ExtraFiles, build)


def treeinfo_case(case):
    desc = case["desc"]
    obj = must("build", tim.build_ti, desc, 0)
    main = desc["main_variant"] if case["use_main"] else None
    kind = "treeinfo" + ("+main_variant" if main is not None else "")

    def dump(path):
        if main is not None:
            return obj.dump(path, main_variant=main)
        return obj.dump(path)

    def change():
        obj.release.name = obj.release.name + "X"
    units, trials = run_trials(kind, obj, dump, change)
    plants = [("tree.build_timestamp", ) + _swap(obj.tree, "build_timestamp", "yesterday"), ("tree.arch", ) + _swap(obj.tree, "arch", ""),
              ("stage2.mainimage", ) + _swap(obj.stage2, "mainimage", "/abs/stage2.img"), ("media.discnum", ) + _swap(obj.media, "discnum", "1"),
              ("release.version", ) + _swap(obj.release, "version", "1.")]
    for v in [v for p, v in reachable(obj) if type(v).__name__ == "Variant"][:5]:
        plants.append(("variant[%s].type" % v.uid, ) + _swap(v, "type", "bogus"))
        plants.append(("variant[%s].id" % v.uid, ) + _swap(v, "id", "a-b"))
    plants.append(("release.name=unencodable", ) + _swap(obj.release, "name", UNENCODABLE))
    for plat in sorted(obj.images.images)[:2]:
        table = obj.images.images[plat]
        plants.append(("images[%s][None]" % plat, ) + _swap_item(table, None, "vmlinuz"))          # non-string image name among string names
        plants.append(("images[%s][kernel]=unwritable" % plat, ) + _swap_item(table, "kernel", UNWRITABLE))
    for v in [v for p, v in reachable(obj) if type(v).__name__ == "Variant"][:2]:
        plants.append(("variant[%s].paths.packages=5" % v.uid, ) + _swap(v.paths, "packages", 5))
    u2, t2 = real_invalid_trials(kind, obj, dump, plants)
    return _result("treeinfo", units + u2, trials + t2)


def discinfo_case(case):
    from productmd.discinfo import DiscInfo
    obj = DiscInfo()
    obj.timestamp, obj.description, obj.arch, obj.disc_numbers = case["timestamp"], case["description"], case["arch"], list(case["discs"])

    def change():
        obj.description = obj.description + "X"
    units, trials = run_trials("discinfo", obj, obj.dump, change)
    plants = [("timestamp", ) + _swap(obj, "timestamp", 0), ("description", ) + _swap(obj, "description", ""), ("disc_numbers", ) + _swap(obj, "disc_numbers", []),
              ("description=unencodable", ) + _swap(obj, "description", UNENCODABLE),
              # values every outward check lets through but that do not survive the trip (whether they must be refused is C06's
              # question; if a dump does fail on them - before, while or AFTER writing - the destination is as it was)
              ("description=blank-not-empty", ) + _swap(obj, "description", " \t"), ("arch=blank-not-empty", ) + _swap(obj, "arch", " "),
              ("disc_numbers=[text]", ) + _swap(obj, "disc_numbers", ["x"]), ("description=two-lines", ) + _swap(obj, "description", "a\nb")]
    u2, t2 = real_invalid_trials("discinfo", obj, obj.dump, plants)
    return _result("discinfo", units + u2, trials + t2)


# ---- a process whose locale cannot encode the text --------------------------------------------------------------------------
def ascii_locale_case(case):
    import json
    import subprocess
    import sys
    from pbt.runner import VERIF_DIR, REPO, HarnessError
    env = dict(os.environ, PYTHONPATH=VERIF_DIR + os.pathsep + os.path.join(VERIF_DIR, ".deps"), VERIF_REPO=REPO, PYTHONHASHSEED="0", PYTHONDONTWRITEBYTECODE="1",
               LC_ALL=case["locale"], LANG=case["locale"], PYTHONUTF8="0", PYTHONCOERCECLOCALE="0")
    proc = subprocess.run([sys.executable, "-m", "pbt.c18_child"], capture_output=True, text=True, env=env, cwd=VERIF_DIR, timeout=600)
    if proc.returncode != 0:
        raise HarnessError("C18 child failed:\n%s" % proc.stderr[-2000:])
    res = json.loads(proc.stdout)
    if res["findings"]:
        raise Violation(res["findings"][0]["bucket"], res["findings"][0]["message"])
    return {"nontrivial": True, "labels": ["locale-encoding:" + res["encoding"]], "units": ["locale:%s" % case["locale"]], "unit_evaluations": res["trials"]}


# ---- large objects: size-dependent code paths (streaming / chunked writers) must obey the same rule ----------------------
def large_object(kind, n):
    if kind == "rpms":
        from productmd.rpms import Rpms
        obj = Rpms()
        mf.fill_compose(obj)
        for i in range(n):
            obj.add("Server" if i % 3 else "Client", ["x86_64", "s390x"][i % 2], "pkg%d-0:1.%d-1.x86_64" % (i, i), "Packages/p/pkg%d.rpm" % i, None, "binary",
                    "pkg%d-0:1.%d-1.src" % (i, i))
    elif kind == "modules":
        from productmd.modules import Modules
        obj = Modules()
        mf.fill_compose(obj)
        for i in range(n):
            obj.add("Server", "x86_64", "mod%d:%d:2018:abc" % (i, i), "tag", "p/%d" % i, "binary", ["a-0:1-1.x86_64"])
    elif kind == "extra_files":
        from productmd.extra_files import ExtraFiles
        obj = ExtraFiles()
        mf.fill_compose(obj)
        for i in range(n):
            obj.add("Server", "x86_64", "Server/x86_64/os/f%d" % i, i, {"md5": "x"})
    elif kind == "images":
        desc = c06_rich("images")
        base = desc["images"][0]["rec"]
        desc["images"] = [{"rec": dict(base, path="p/%d.iso" % i, subvariant="S%d" % i, checksums={"sha256": "%064d" % i}), "cells": [["Server", "x86_64"]], "share_object": True}
                          for i in range(n)]
        obj = imm.build_images(desc, 0)
    elif kind == "composeinfo":
        desc = c06_rich("composeinfo")
        desc["variants"] = [{"id": "V%d" % i, "uid": "V%d" % i, "name": "v", "type": "variant", "arches": ["x86_64"], "paths": {"os_tree": {"x86_64": "p/%d" % i}}, "children": []}
                            for i in range(n)]
        obj = cim.build_ci(desc, 0)
    else:
        desc = c06_rich("treeinfo")
        desc["variants"] = [{"id": "V%d" % i, "uid": "V%d" % i, "name": "v", "type": "variant", "paths": {"packages": "p/%d" % i}, "children": []} for i in range(n)]
        obj = tim.build_ti(desc, 0)
    return obj


def c06_rich(fmt):
    from pbt.props import c06
    return c06.rich(fmt)


LARGE = {"quick": [("rpms", 25000), ("modules", 3000), ("extra_files", 25000), ("images", 1500), ("composeinfo", 600), ("treeinfo", 600)],
         "thorough": [("rpms", 25000), ("rpms", 70000), ("modules", 12000), ("extra_files", 70000), ("images", 3000), ("composeinfo", 2500), ("treeinfo", 2500)]}


def large_case(case):
    kind, n = case["kind"], case["n"]
    obj = large_object(kind, n)
    tmp = tempfile.mkdtemp(prefix="c18L-")
    units, trials = [], 0
    try:
        dest = os.path.join(tmp, "metadata")
        must("dump-valid-large-object", obj.dump, dest)
        with open(dest, "rb") as fo:
            old = fo.read()
        # (not reachable(): walking a payload of 10^5 plain entries is wasted time)
        victims = [("obj." + a, getattr(obj, a)) for a in ("compose", "header", "release", "tree") if hasattr(obj, a)][:3]
        for path, inst in victims:
            name = sorted(n_ for n_ in dir(inst) if n_.startswith("_validate") and callable(getattr(inst, n_)))[0]
            for existing in (True, False):
                if existing:
                    if not os.path.exists(dest):
                        with open(dest, "wb") as fo:
                            fo.write(old)
                elif os.path.exists(dest):
                    os.unlink(dest)

                def faulty(*a, **kw):
                    raise Injected("injected failure of %s.%s" % (path, name))
                setattr(inst, name, faulty)
                try:
                    try:
                        obj.dump(dest)
                        raised = False
                    except Injected:
                        raised = True
                finally:
                    delattr(inst, name)
                trials += 1
                where = "%s with %d entries, %s.%s, destination %s" % (kind, n, path, name, "existing" if existing else "absent")
                check(raised, "harness-large-fault-not-reached", "%s: injected fault did not fire" % where)
                if existing:
                    same = os.path.exists(dest) and os.path.getsize(dest) == len(old)
                    if same:
                        with open(dest, "rb") as fo:
                            same = fo.read() == old
                    check(same, "destination-changed-by-failed-dump", lambda: "%s: destination had %d bytes, now %s" % (
                        where, len(old), os.path.getsize(dest) if os.path.exists(dest) else "nothing"))
                else:
                    check(not os.path.exists(dest), "file-created-by-failed-dump", "%s: a file was created" % where)
                units.append("%s:%d:%s.%s/%s" % (kind, n, path, name, "e" if existing else "a"))
    finally:
        shutil.rmtree(tmp, ignore_errors=True)
    return {"nontrivial": True, "labels": [kind + "-large"], "units": units, "unit_evaluations": trials}


def run(ctx):
    from pbt.props.c04 import disc_strategy
    ctx.sweep("large-objects", [{"kind": k, "n": n} for k, n in LARGE[ctx.tier]], large_case, exhaustive=False, stop_after=3)
    ctx.forall("composeinfo", cim.compose_desc(max_top=2), composeinfo_case, ctx.n(64, 3200), shrink=False)
    ctx.forall("images", imm.images_desc(max_images=5), images_case, ctx.n(64, 3200), shrink=False)
    ctx.forall("rpms", mf.rpm_history(allow_breaks=False, max_ops=5), rpms_case, ctx.n(32, 800), shrink=False)
    ctx.forall("modules", mf.module_history(allow_breaks=False, max_ops=5), modules_case, ctx.n(32, 800), shrink=False)
    ctx.forall("extra_files", mf.extra_history(allow_breaks=False, max_ops=5), extra_case, ctx.n(32, 800), shrink=False)
    ctx.forall("treeinfo", st.fixed_dictionaries({"desc": tim.tree_desc(max_top=2), "use_main": st.booleans()}), treeinfo_case, ctx.n(64, 3200), shrink=False)
    ctx.forall("discinfo", disc_strategy, discinfo_case, ctx.n(32, 800), shrink=False)
    ctx.sweep("ascii-locale", [{"locale": "C"}, {"locale": "POSIX"}], ascii_locale_case, exhaustive=True, stop_after=2)


REPLAY = {"ascii-locale": ascii_locale_case, "composeinfo": composeinfo_case, "images": images_case, "rpms": rpms_case, "modules": modules_case, "extra_files": extra_case,
          "treeinfo": treeinfo_case, "discinfo": discinfo_case, "large-objects": large_case}
