"""C06 Only objects meeting every documented field constraint can be written."""
import itertools
import json
import os
import shutil
import tempfile

from hypothesis import strategies as st

from pbt import gen, ci as cim, im as imm, ti as tim, manifests as mf, rules
from pbt.props.c18 import reachable
from pbt.runner import must, check, refuses, Violation

PROPERTY = "C06"
LEVEL = "exploration"
RULE = ("A generated valid object of each of the seven formats receives exactly ONE corruption: a row of the hand-written rule "
        "table pbt/rules.py (documented enumerations, patterns, required text, integer/bool fields, empty checksums ...) "
        "applied to ANY position that is actually written (any variant in the forest incl. the release of layered-product "
        "variants, any image in any cell, any section object), or a documented cross-field rule (final next to a label, "
        "child arch outside the parent's, misaligned UID, additional variants on a non-unified image, absolute image / "
        "stage2 / checksum path, unreferenced image platform, partial media numbering). dumps() - and dump(path) for a "
        "fraction - must raise ValueError/TypeError and return no text. A deterministic sweep applies every (row, value) "
        "pair to rich fixed objects so no pair stays unexplored. Converse: every uncorrupted generated object, and objects "
        "sweeping every documented enumeration value (compose/release/variant/image types, image formats, label names, all "
        "architectures), dump without error. Non-trivial = the corrupted position is below the top level (nested variant, "
        "image in a cell, section object); distinct = SHA-1 of object+corruption. Half of the corruptions are applied to an object that has already been written successfully once, some by mutating a container in place; pattern fields additionally receive mechanically derived near misses (every single-character edit of a valid exemplar that a regex-free reference predicate rejects). Sub-check caller-validates-first: in fresh interpreters the caller's own validate() calls on parts of a valid object come first, in a generated order, before the full corruption table is swept. A refused add that leaves its variant in the forest is a corruption of its own; each corrupt value is first shown to the read-only public helpers.")
ASSUMPTIONS = ["values the code base does not document as invalid (blank release name/short) are deliberately absent from the table",
               "bool is an int in Python: True/False are not used as invalid integers"]
FLOORS = {"distinct_nontrivial": 1200, "corruption": 800, "table-sweep": 150, "enumerations": 100}

FORMATS = ["composeinfo", "images", "rpms", "modules", "extra_files", "treeinfo", "discinfo"]


def build(fmt, desc):
    if fmt == "composeinfo":
        return cim.build_ci(desc, 0)
    if fmt == "images":
        return imm.build_images(desc, 0)
    if fmt == "treeinfo":
        return tim.build_ti(desc, 0)
    if fmt == "discinfo":
        from productmd.discinfo import DiscInfo
        d = DiscInfo()
        d.timestamp, d.description, d.arch, d.disc_numbers = desc["timestamp"], desc["description"], desc["arch"], list(desc["discs"])
        return d
    from productmd.rpms import Rpms
    from productmd.modules import Modules
    from productmd.extra_files import ExtraFiles
    obj = {"rpms": Rpms, "modules": Modules, "extra_files": ExtraFiles}[fmt]()
    mf.fill_compose(obj)
    if fmt == "rpms":
        model = {}
        for op in desc["ops"]:
            if mf.rpm_model_apply(model, op):
                mf.rpm_call(obj, op)
    elif fmt == "modules":
        caller, model = mf.ModuleCaller(desc["lists"]), {}
        for op in desc["ops"]:
            if mf.module_model_apply(model, op, desc["lists"]):
                caller.call(obj, op)
    else:
        model = {}
        for op in desc["ops"]:
            if mf.extra_model_apply(model, op):
                mf.extra_call(obj, op)
    return obj


def written_targets(fmt, obj, cls):
    """instances of class `cls` that the writer really emits (a base product is only written for layered releases, a
    variant's own release only for layered-product variants ...), with a nesting depth"""
    out = []
    for path, inst in reachable(obj):
        if type(inst).__name__ != cls:
            continue
        depth = path.count(".") + path.count("[")
        if fmt == "composeinfo":
            if cls == "BaseProduct" and not obj.release.is_layered:
                continue
            if cls == "Release" and inst is not obj.release:
                continue          # variant.release is handled by the special 'layered-variant-release-type'
        if fmt == "treeinfo" and cls == "BaseProduct" and not obj.release.is_layered:
            continue
        out.append((path, inst, depth))
    return out


def refused_add_left_behind(fmt, obj, k):
    """a misaligned child is offered to a variant and refused; if the refused variant can nevertheless be reached from the
    forest afterwards, the object holds a variant breaking the UID rule and must not be writable"""
    import productmd.composeinfo
    import productmd.treeinfo
    variants = [v for p, v in reachable(obj) if type(v).__name__ == "Variant"]
    if not variants:
        return None
    target = variants[k % len(variants)]
    child = (productmd.composeinfo.Variant if fmt == "composeinfo" else productmd.treeinfo.Variant)(obj)
    child.id, child.uid, child.name, child.type = "Rfsd", "Elsewhere-Rfsd", "refused", "variant"
    if fmt == "composeinfo":
        child.arches = set(target.arches)
    try:
        target.add(child)
    except ValueError:
        pass
    else:
        raise Violation("misaligned-add-not-refused", "%s: %s.add() accepted a child with UID %r" % (fmt, target.uid, child.uid))
    held = [v for v in [v for p, v in reachable(obj) if type(v).__name__ == "Variant"] if v is child]
    if not held:
        return None
    return "%s.add() refused %r but the variant stayed in the forest" % (target.uid, child.uid), 2


def apply_special(fmt, obj, name, k, desc=None):
    """returns (label, depth) or None when the object offers no position for this corruption"""
    if name == "refused-add-left-behind":
        return refused_add_left_behind(fmt, obj, k)
    if fmt == "composeinfo":
        variants = [(p, v) for p, v in reachable(obj) if type(v).__name__ == "Variant"]
        kids = [(p, v) for p, v in variants if v.parent is not None]
        if name == "final-with-label":
            obj.compose.label = "RC-1.0"
            obj.compose.final = ["yes", None, 1][k % 3]
            return "compose.final", 1
        if name == "child-arch-outside-parent":
            if not kids:
                return None
            p, v = kids[k % len(kids)]
            # prefer an arch that a HIGHER ancestor has but the immediate parent lacks (the rule is about the parent)
            higher = set()
            anc = v.parent.parent
            while anc is not None:
                higher |= set(anc.arches)
                anc = anc.parent
            borrowed = sorted(higher - set(v.parent.arches))
            if borrowed:
                v.arches = set(v.arches) | set([borrowed[k % len(borrowed)]])
                return "%s.arches (arch of a grandparent the parent lacks)" % v.uid, 3
            if k % 3 == 2 and "src" not in v.parent.arches:
                v.arches = set(v.arches) | set(["src"])       # the pseudo-arch every variant matches is not an arch every variant has
                return "%s.arches (src)" % v.uid, 2
            if k % 2:
                v.arches.add("s390x-not-in-parent")          # in place
            else:
                v.arches = set(v.arches) | set(["s390x-not-in-parent"])
            return "%s.arches" % v.uid, 2
        if name == "misaligned-uid":
            if not variants:
                return None
            p, v = variants[k % len(variants)]
            if v.parent is not None and k % 3 == 1:
                # the right letters with the dashes elsewhere: a nested UID is parent UID, ONE dash, id - exactly
                good = v.uid
                v.uid = [good.replace("-", "", 1), good.replace("-", "--", 1), good[:1] + "-" + good[1:], good + "-", good.replace("-", "")][(k // 3) % 5]
                return "%s.uid (dashes moved: %r for %r)" % (v.id, v.uid, good), 2
            v.uid = "X" + v.uid if v.parent is not None else v.uid + "x"
            return "%s.uid" % v.id, 1 + (v.parent is not None)
        if name == "layered-variant-release-type":
            lps = [(p, v) for p, v in variants if v.type == "layered-product"]
            if not lps:
                return None
            p, v = lps[k % len(lps)]
            field, value = [("type", "bogus"), ("version", "1."), ("name", None), ("type", "GA")][k % 4]
            setattr(v.release, field, value)
            return "%s.release.%s" % (v.uid, field), 2
    if fmt == "images":
        imgs = [v for p, v in reachable(obj) if type(v).__name__ == "Image"]
        if not imgs:
            return None
        img = imgs[k % len(imgs)]
        if name == "additional-variants-on-non-unified":
            img.unified = False
            if k % 2 and isinstance(img.additional_variants, list):
                del img.additional_variants[:]
                img.additional_variants.append("Server")     # in place
            else:
                img.additional_variants = ["Server"]
        else:
            img.unified = True
            img.additional_variants = ["Server", None, ("Server",)][k % 3] if k % 3 else "Server"
        return "image[%s].additional_variants" % img.path, 2
    if fmt == "treeinfo":
        if name == "misaligned-uid":
            kids = [v for p, v in reachable(obj) if type(v).__name__ == "Variant" and v.parent is not None]
            if not kids:
                return None
            v = kids[k % len(kids)]
            v.uid = "X" + v.uid
            return "%s.uid" % v.id, 2
        if name == "absolute-image-path":
            plats = sorted(obj.images.images)
            if not plats:
                return None
            plat = plats[k % len(plats)]
            obj.images.images[plat]["kernel"] = "/boot/vmlinuz"
            return "images[%s]" % plat, 1
        if name == "unreferenced-platform":
            if k % 3 == 2:
                # a platform other trees in the same process legitimately name, but this one does not
                named = set(desc["tree"]["platforms"]) if desc else set(obj.tree.platforms)       # what THIS tree was given, not what the object claims
                others = [p for p in ("xen", "x86_64", "i386", "ppc64le", "efi", "s390x", "Xen") if p not in named and p != obj.tree.arch]
                obj.images.images[others[(k // 3) % len(others)]] = {"kernel": "vmlinuz"} if (k // 5) % 2 else {}
                return "images[%s] (named by other trees only)" % others[(k // 3) % len(others)], 1
            if k % 3 == 1:
                # the arch is listed automatically on WRITE, but image tables are checked against the platforms the tree
                # really names: images for the arch while tree.platforms does not name it
                obj.tree.platforms.discard(obj.tree.arch)
                obj.images.images.setdefault(obj.tree.arch, {})["kernel"] = "vmlinuz"
                return "images[<tree arch>] with the arch missing from tree.platforms", 1
            # ... with an image, or with a table that is still empty: the [images-<platform>] section is written either way
            obj.images.images["ghost_platform"] = {"kernel": "vmlinuz"} if (k // 3) % 2 else {}
            return "images[ghost_platform]%s" % ("" if (k // 3) % 2 else " (empty table)"), 1
        if name == "absolute-checksum-path":
            obj.checksums.checksums["/abs/repomd.xml"] = ("sha256", "aa")
            return "checksums[/abs/repomd.xml]", 1
        if name == "partial-media":
            if k % 2:
                obj.media.discnum, obj.media.totaldiscs = 1, None
            else:
                obj.media.discnum, obj.media.totaldiscs = None, 2
            return "media", 1
    return None


def exercise_helpers(value):
    """the value is first passed through public helpers that only compute something from it - ids, predicates, parsers.
    Whatever they answer, they must not make the value acceptable as a field value afterwards (enumeration tables and
    patterns are not extended behind the caller's back)"""
    import productmd.common as c
    import productmd.composeinfo as ci
    if not isinstance(value, str):
        return
    for fn in (lambda: c.create_release_id("rhel", "7", value), lambda: c.create_release_id("rhel", value, "ga"), lambda: c.create_release_id(value, "7", "ga"),
               lambda: c.create_release_id("rhel", "7", "ga", "base", "1", value), lambda: c.is_valid_release_type(value), lambda: c.is_valid_release_version(value),
               lambda: c.parse_release_id("rhel-7-" + value), lambda: ci.verify_label(value), lambda: ci.get_date_type_respin("F-22-20160622." + value + ".1"),
               lambda: c.parse_nvra(value), lambda: c.split_version(value)):
        try:
            fn()
        except Exception:  # noqa
            pass


def corrupt_and_dump(fmt, desc, corruption, via_file=False, validated_first=False):
    obj = must("build-valid-object", build, fmt, desc)
    if validated_first:
        # the usual life of an object: built (or loaded), written once, THEN modified and written again
        must("valid-object-refused", obj.dumps)
    main = None
    if corruption["kind"] == "row":
        cls, field, values, source = rules.RULES[fmt][corruption["row"] % len(rules.RULES[fmt])]
        targets = written_targets(fmt, obj, cls)
        if not targets:
            return None
        path, inst, depth = targets[corruption["target"] % len(targets)]
        value = values[corruption["value"] % len(values)]
        exercise_helpers(value)
        current = getattr(inst, field)
        if corruption.get("in_place") and type(current) is type(value) and isinstance(current, (dict, list, set)):
            # same container object, emptied / refilled in place (an observer comparing object identity sees no change)
            current.clear()
            (current.update if isinstance(current, (dict, set)) else current.extend)(value)
            label = "%s.%s mutated in place to %r" % (path, field, value)
        else:
            setattr(inst, field, value)
            label = "%s.%s = %r" % (path, field, value)
            if field == "id" and type(inst).__name__ == "Variant" and isinstance(value, str) and value and "-" not in value and corruption["target"] % 2:
                # the variant is RENAMED consistently - container key, its UID and the UIDs below it follow the new id - so that
                # the id rule alone decides (a stale key or a misaligned UID is a corruption of its own)
                container = inst.parent if inst.parent is not None else obj.variants
                for key in [k for k, v in container.variants.items() if v is inst]:
                    del container.variants[key]
                container.variants[value] = inst

                def realign(v):
                    v.uid = v.id if v.parent is None else "%s-%s" % (v.parent.uid, v.id)
                    for kid in v.variants.values():
                        realign(kid)
                realign(inst)
                label += " (renamed consistently, uid %r)" % inst.uid
    else:
        names = rules.SPECIALS.get(fmt, [])
        if not names:
            return None
        name = names[corruption["row"] % len(names)]
        res = apply_special(fmt, obj, name, corruption["target"], desc)
        if res is None:
            return None
        label, depth = "%s (%s)" % (name, res[0]), res[1]
    if via_file:
        tmp = tempfile.mkdtemp(prefix="c06-")
        try:
            dest = os.path.join(tmp, "metadata")
            refuses("dump(path) of invalid object [%s]" % fmt, (ValueError, TypeError), obj.dump, dest)
        except Violation as v:
            raise Violation("invalid-object-written", "%s: %s -- %s" % (fmt, label, v.message))
        finally:
            shutil.rmtree(tmp, ignore_errors=True)
    else:
        try:
            text = obj.dumps()
        except (ValueError, TypeError):
            text = None
        except Exception as exc:  # noqa
            raise Violation("invalid-object-wrong-exception", "%s: %s -> %s: %s (expected ValueError/TypeError)" % (fmt, label, type(exc).__name__, exc))
        check(text is None, "invalid-object-written", lambda: "%s: %s was written (%d characters returned)" % (fmt, label, len(text)))
    return label, depth


_descs = {
    "composeinfo": cim.compose_desc(), "images": imm.images_desc(max_images=5), "treeinfo": tim.tree_desc(),
    "rpms": mf.rpm_history(allow_breaks=False, max_ops=4), "modules": mf.module_history(allow_breaks=False, max_ops=4),
    "extra_files": mf.extra_history(allow_breaks=False, max_ops=4),
}


def _disc():
    from pbt.props.c04 import disc_strategy
    return disc_strategy


corruption_strategy = st.fixed_dictionaries({"kind": st.sampled_from(["row", "row", "row", "special"]), "row": st.integers(0, 60), "target": st.integers(0, 40),
                                              "value": st.integers(0, 12), "in_place": st.booleans()})
case_strategy = st.sampled_from(["composeinfo", "composeinfo", "composeinfo", "images", "images", "images", "treeinfo", "treeinfo", "treeinfo",
                                 "rpms", "modules", "extra_files", "discinfo"]).flatmap(
    lambda fmt: st.fixed_dictionaries({"format": st.just(fmt), "desc": _descs[fmt] if fmt in _descs else _disc(), "corruption": corruption_strategy,
                                       "via_file": st.integers(0, 7).map(lambda i: i == 0), "validated_first": st.booleans()}))


def corruption_case(case):
    fmt = case["format"]
    # converse first: the uncorrupted object must be writable
    obj = must("build-valid-object", build, fmt, case["desc"])
    text = must("valid-object-refused", obj.dumps)
    check(isinstance(text, str) and text, "valid-object-empty-text", "dumps() returned %r" % (text,))
    res = corrupt_and_dump(fmt, case["desc"], case["corruption"], case.get("via_file"), case.get("validated_first"))
    if res is None:
        return {"nontrivial": False, "labels": ["no-position", fmt]}
    label, depth = res
    return {"nontrivial": depth >= 1, "labels": [fmt, "depth%d" % min(depth, 3)] + (["after-successful-dump"] if case.get("validated_first") else [])}


# ---- deterministic sweep: every (row, value) pair and every special on rich fixed objects ------------------------------
def rich(fmt):
    if fmt == "composeinfo":
        def node(vid, uid, vtype, arches, children=()):
            n = {"id": vid, "uid": uid, "name": vid, "type": vtype, "arches": arches, "paths": {"os_tree": {arches[0]: "p"}}, "children": list(children)}
            if vtype == "layered-product":
                n["release"] = {"name": "L", "short": "l", "version": "1.0", "type": "ga", "internal": False}
            return n
        return {"release": {"name": "Fedora", "short": "F", "version": "22", "type": "updates", "internal": True}, "layered": True,
                "base_product": {"name": "B", "short": "b", "version": "7", "type": "eus"},
                "compose": {"id": "F-22-20160622.n.3", "type": "nightly", "date": "20160622", "respin": 3, "label": "Beta-1.2", "final": True},
                "variants": [node("Server", "Server", "variant", ["x86_64", "i386"],
                                  [node("HA", "Server-HA", "addon", ["x86_64"], [node("L", "Server-HA-L", "layered-product", ["x86_64"])]),
                                   node("optional", "Server-optional", "optional", ["i386"])]),
                             node("Client", "Client", "variant", ["x86_64"])]}
    if fmt == "images":
        def rec(i, unified):
            return {"path": "p/%d.iso" % i, "mtime": 1, "size": 2 ** 33, "volume_id": "V", "type": "dvd", "format": "iso", "arch": "x86_64", "disc_number": i,
                    "disc_count": 2, "checksums": {"sha256": "aa", "md5": "bb"}, "implant_md5": "a" * 32, "bootable": True, "subvariant": "S%d" % i,
                    "unified": unified, "additional_variants": ["Client"] if unified else []}
        return {"compose": {"id": "F-22-20160622.n.3", "type": "nightly", "date": "20160622", "respin": 3, "label": "Beta-1.2", "final": False},
                "images": [{"rec": rec(1, False), "cells": [["Server", "x86_64"], ["Client", "i386"]], "share_object": True},
                           {"rec": rec(2, True), "cells": [["Server", "x86_64"]], "share_object": False}]}
    if fmt == "treeinfo":
        kid = {"id": "HA", "uid": "Server-HA", "name": "HA", "type": "addon", "paths": {"packages": "ha"}, "children": [
            {"id": "X", "uid": "Server-HA-X", "name": "X", "type": "optional", "paths": {}, "children": []}]}
        return {"release": {"name": "Foo", "short": "F", "version": "1.2"}, "layered": True, "base_product": {"name": "B", "short": "b", "version": "7"},
                "tree": {"arch": "x86_64", "build_timestamp": 123, "platforms": ["x86_64", "xen"]},
                "variants": [{"id": "Server", "uid": "Server", "name": "Server", "type": "variant", "paths": {"packages": "Packages", "repository": "."}, "children": [kid]}],
                "images": {"x86_64": {"kernel": "vmlinuz"}, "xen": {"kernel": "vmlinuz-xen"}}, "stage2": {"mainimage": "LiveOS/squashfs.img", "instimage": "images/install.img"},
                "media": {"discnum": 1, "totaldiscs": 2}, "checksums": {"vmlinuz": ["sha256", "aa"]}, "main_variant": None}
    if fmt == "discinfo":
        return {"timestamp": 1386857206.5, "description": "Fedora 20", "arch": "x86_64", "discs": [1, 2]}
    if fmt == "rpms":
        return {"ops": [{"variant": "Server", "arch": "x86_64", "nevra": {"name": "glibc", "epoch": 0, "version": "2", "release": "1", "arch": "x86_64", "prefix": "", "rpm": False},
                         "path": "p", "sigkey": None, "category": "binary", "srpm": {"name": "glibc", "epoch": 0, "version": "2", "release": "1", "arch": "src", "prefix": "", "rpm": False}, "break": None}]}
    if fmt == "modules":
        return {"lists": [["a-0:1-1.x86_64"]], "ops": [{"variant": "Server", "arch": "x86_64", "uid_parts": ["m", "1"], "uid_prefix": "", "koji_tag": "t", "path": "p",
                                                         "category": "binary", "rpms": {"list": 0, "as_tuple": False}, "break": None}]}
    return {"ops": [{"variant": "Server", "arch": "x86_64", "path": "GPL", "size": 1, "checksums": {"md5": "x"}, "break": None}]}


def table_cases():
    for fmt in FORMATS:
        for row, (cls, field, values, source) in enumerate(rules.RULES[fmt]):
            for vi in range(len(values)):
                for target in range(4):
                    for validated_first in (False, True):
                        yield {"format": fmt, "validated_first": validated_first,
                               "corruption": {"kind": "row", "row": row, "target": target, "value": vi, "in_place": bool(target % 2)}}
        for row in range(len(rules.SPECIALS.get(fmt, []))):
            for target in range(6):
                for validated_first in (False, True):
                    yield {"format": fmt, "validated_first": validated_first, "corruption": {"kind": "special", "row": row, "target": target, "value": 0}}


def table_case(case):
    res = corrupt_and_dump(case["format"], rich(case["format"]), case["corruption"], via_file=case["corruption"]["target"] == 3,
                           validated_first=case.get("validated_first", False))
    if res is None:
        names = rules.SPECIALS.get(case["format"], [])
        if case["corruption"]["kind"] == "special" and names[case["corruption"]["row"] % len(names)] == "refused-add-left-behind":
            return {"nontrivial": True, "labels": [case["format"], "refused-add-left-nothing-behind"]}      # the expected outcome
        raise Violation("harness-rich-object-lacks-position", "harness bug: rich %s object has no position for %r" % (case["format"], case["corruption"]))
    label, depth = res
    return {"nontrivial": depth >= 1, "labels": [case["format"], "row" if case["corruption"]["kind"] == "row" else "special"]}


# ---- fresh interpreters: the caller validates parts of an object first, in some order ----------------------------------------
def fresh_cases(n):
    for i in range(n):
        for fmt in ("composeinfo", "treeinfo", "images"):
            yield {"format": fmt, "seed": i}


def fresh_case(case):
    import subprocess
    import sys
    from pbt.runner import VERIF_DIR, REPO, HarnessError
    env = dict(os.environ, PYTHONPATH=VERIF_DIR + os.pathsep + os.path.join(VERIF_DIR, ".deps"), VERIF_REPO=REPO, PYTHONHASHSEED="0", PYTHONDONTWRITEBYTECODE="1")
    proc = subprocess.run([sys.executable, "-m", "pbt.c06_child", case["format"], str(case["seed"])], capture_output=True, text=True, env=env, cwd=VERIF_DIR, timeout=900)
    if proc.returncode != 0:
        raise HarnessError("C06 child failed:\n%s" % proc.stderr[-2000:])
    res = json.loads(proc.stdout)
    if res["findings"]:
        f = res["findings"][0]
        raise Violation(f["bucket"], "fresh interpreter, caller's validate() calls first (%s): %s" % (", ".join(res["order"][:6]), f["message"]))
    return {"nontrivial": True, "labels": [case["format"], "first-validated:" + res["order"][0]], "units": ["%s#%d" % (case["format"], case["seed"])], "unit_evaluations": res["trials"]}


# ---- converse: every documented enumeration value is writable -----------------------------------------------------------
def enumeration_cases():
    for t in gen.COMPOSE_TYPES:
        yield {"what": "compose-type", "value": t}
    for t in gen.RELEASE_TYPES:
        yield {"what": "release-type", "value": t}
    for t in gen.CI_VARIANT_TYPES:
        yield {"what": "ci-variant-type", "value": t}
    for t in gen.TI_VARIANT_TYPES:
        yield {"what": "ti-variant-type", "value": t}
    for n in gen.LABEL_NAMES:
        yield {"what": "label", "value": "%s-1.0" % n}
        yield {"what": "label", "value": "%s-12.34" % n}
    for i, t in enumerate(imm.IMAGE_TYPES):
        yield {"what": "image-type-format", "value": [t, imm.IMAGE_FORMATS[i % len(imm.IMAGE_FORMATS)]]}
    for i, f in enumerate(imm.IMAGE_FORMATS):
        yield {"what": "image-type-format", "value": [imm.IMAGE_TYPES[(i * 7) % len(imm.IMAGE_TYPES)], f]}
    for a in gen.BINARY_ARCHES:
        yield {"what": "arch", "value": a}


def enumeration_case(case):
    what, value = case["what"], case["value"]
    if what in ("compose-type", "release-type", "ci-variant-type", "label"):
        desc = rich("composeinfo")
        if what == "compose-type":
            desc["compose"]["type"] = value
        elif what == "release-type":
            desc["release"]["type"] = value
            desc["base_product"]["type"] = value
            desc["variants"][0]["children"][0]["children"][0]["release"]["type"] = value
        elif what == "ci-variant-type":
            desc["variants"][1]["type"] = value
            if value == "layered-product":
                desc["variants"][1]["release"] = {"name": "L", "short": "l", "version": "1", "type": "ga", "internal": False}
        else:
            desc["compose"]["label"] = value
        must("documented-value-refused[%s]" % what, lambda: cim.build_ci(desc, 0).dumps())
    elif what == "ti-variant-type":
        desc = rich("treeinfo")
        desc["variants"][0]["children"][0]["type"] = value
        must("documented-value-refused[%s]" % what, lambda: tim.build_ti(desc, 0).dumps())
    elif what == "image-type-format":
        desc = rich("images")
        desc["images"][0]["rec"]["type"], desc["images"][0]["rec"]["format"] = value
        must("documented-value-refused[%s]" % what, lambda: imm.build_images(desc, 0).dumps())
    else:
        desc = rich("images")
        desc["images"][0]["cells"] = [["Server", value]]
        desc["images"][0]["rec"]["arch"] = value
        must("documented-value-refused[arch in images]", lambda: imm.build_images(desc, 0).dumps())
        cdesc = rich("composeinfo")
        cdesc["variants"][1]["arches"] = [value]
        cdesc["variants"][1]["paths"] = {"os_tree": {value: "p"}}
        must("documented-value-refused[arch in composeinfo]", lambda: cim.build_ci(cdesc, 0).dumps())
        from productmd.rpms import Rpms
        r = Rpms()
        mf.fill_compose(r)
        must("documented-value-refused[arch in rpms]", r.add, "Server", value, "glibc-0:2-1.%s" % value, "p", None, "binary", "glibc-0:2-1.src")
        must("documented-value-refused[arch in rpms]", r.dumps)
    return {"nontrivial": True, "labels": [what]}


# ---- converse: instances of SUBCLASSES of the documented types are valid values ----------------------------------------------
class S(str):
    pass


class I(int):
    pass


class F(float):
    pass


class L(list):
    pass


class SetSub(set):
    pass


def subclassed(value):
    import collections
    if isinstance(value, bool) or value is None:
        return value
    if isinstance(value, str):
        return S(value)
    if isinstance(value, int):
        return I(value)
    if isinstance(value, float):
        return F(value)
    if isinstance(value, dict):
        return collections.OrderedDict((k, v) for k, v in value.items())
    if isinstance(value, list):
        return L(value)
    if isinstance(value, set):
        return SetSub(value)
    return value


SKIP_ATTRS = ("_metadata", "parent", "_variant", "_section", "_fields", "variants", "images", "header", "compose", "release", "base_product", "tree", "checksums",
              "stage2", "media", "paths", "rpms", "modules", "extra_files", "metadata_type")


def subclass_case(case):
    fmt = case["format"]
    plain = must("build-valid-object", build, fmt, rich(fmt))
    want = must("valid-object-refused", plain.dumps)
    obj = must("build-valid-object", build, fmt, rich(fmt))
    changed = 0
    for path, inst in reachable(obj):
        for name, value in list(vars(inst).items()):
            if name in SKIP_ATTRS and not (type(inst).__name__ == "Image" and name == "checksums"):
                continue
            new = subclassed(value)
            if new is not value:
                setattr(inst, name, new)
                changed += 1
    got = must("valid-object-with-subclass-instances-refused[%s]" % fmt, obj.dumps)
    check(got == want, "subclass-instances-change-output", "%s: output differs when fields hold instances of str/int/dict/list/set subclasses" % fmt)
    return {"nontrivial": changed > 0, "labels": [fmt, "fields:%d" % changed]}


def run(ctx):
    ctx.sweep("subclass-instances", [{"format": f} for f in FORMATS], subclass_case, exhaustive=True, stop_after=7)
    ctx.forall("corruption", case_strategy, corruption_case, ctx.n(2400, 64000))
    ctx.sweep("table-sweep", table_cases(), table_case, exhaustive=True, stop_after=5)
    ctx.sweep("enumerations", enumeration_cases(), enumeration_case, exhaustive=True, stop_after=5)
    ctx.sweep("caller-validates-first", fresh_cases(4 if not ctx.thorough else 48), fresh_case, stop_after=2)


REPLAY = {"caller-validates-first": fresh_case, "corruption": corruption_case, "table-sweep": table_case, "enumerations": enumeration_case, "subclass-instances": subclass_case}
