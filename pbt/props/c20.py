"""C20 A compose directory is resolved to the same metadata in every supported layout."""
import builtins
import json
import os
import shutil
import tempfile

from hypothesis import strategies as st

from pbt.runner import must, check, Violation

PROPERTY = "C20"
LEVEL = "exploration"
RULE = ("Generated directory layouts in a temp dir: any non-empty subset of {direct metadata/, compose/metadata/, one or two "
        "legacy <version>/metadata/}, in each location any subset of the four metadata kinds under current and/or legacy file "
        "names (images.json / image-manifest.json, rpms.json / rpm-manifest.json), every file carrying a distinguishable "
        "payload or invalid content (not JSON, empty, foreign header type, field-constraint violation, missing section, a header version that is no version, well-formed JSON of the wrong shape); "
        "path with or without trailing slash; unrelated sub-directories. Oracle: compose/ wins when it has a composeinfo; "
        "otherwise the resolved location must be one that has a metadata directory; every accessor must equal (by dumps()) a "
        "direct load of a candidate file the description placed in the resolved location (either spelling when both exist), "
        "be the identical object on re-access even after the file was deleted, and a missing / undecodable / invalid file "
        "must surface as RuntimeError naming the location. Non-trivial = >= 2 locations populated, or a legacy file name, or invalid content; distinct = SHA-1 "
        "of the layout. A failing accessor is read twice (same failure again); builtins.open is traced: a candidate file that was opened, is unusable and did not surface is a violation whatever the probing order. The directory is rebuilt under the same path and opened by a new object; a second object asked in the opposite order must give the same answers; directory names carry pattern characters, blanks and non-ASCII letters.")
ASSUMPTIONS = ["precedence between direct and legacy locations, between two legacy locations and between the two spellings of a manifest name is left open by the statement: any candidate is accepted",
               "http(s) access is not exercised (no network)"]
FLOORS = {"layouts": 250, "layouts:invalid-content": 60, "layouts:legacy-name": 60, "layouts:>=2-locations": 100}

KINDS = {"info": ["composeinfo.json"], "images": ["images.json", "image-manifest.json"], "rpms": ["rpms.json", "rpm-manifest.json"],
         "modules": ["modules.json"]}
# "bom" / "utf-16": a well-formed document saved in an encoding a plain load() of the file refuses (undecodable for the library)
# "version:<text>": a complete document whose header names a version that is no version; "shape:<what>": well-formed JSON that
# is not shaped like metadata (a file cut off and re-closed by a tool, a placeholder written by a failed job)
BAD_VERSIONS = ["v1.2", "abc", " 1.2", "-1.2", ".1", "1", "", "1.x", "1.2.3", "1.2 ", "1,2", "one.two"]
BAD_SHAPES = ["{}", "[]", "null", "1", "string", "payload-null", "payload-list", "header-null", "header-list", "header-only", "no-header",
              "no-type", "version-number", "version-null", "compose-null", "compose-list", "body-null", "body-number"]
CONTENT = (["valid"] * 10 + ["not-json", "empty", "foreign-type", "bad-field", "missing-section", "bom", "utf-16"]
           + ["version:" + v for v in BAD_VERSIONS[:4]] * 1 + ["shape:" + s for s in BAD_SHAPES[:4]])
CONTENT_ALL = sorted(set(CONTENT) | set("version:" + v for v in BAD_VERSIONS) | set("shape:" + s for s in BAD_SHAPES))
BODY_KEY = {"info": "variants", "images": "images", "rpms": "rpms", "modules": "modules"}


def must_be_runtime_error(content):
    """content classes for which the statement fixes the exception: undecodable, or refused by a documented rule"""
    return content in ("not-json", "empty", "foreign-type", "bad-field", "missing-section", "bom", "utf-16") or content.startswith(("version:", "shape:"))


@st.composite
def files_strategy(draw):
    out = {}
    for kind in draw(st.lists(st.sampled_from(sorted(KINDS)), min_size=0, max_size=4, unique=True)):
        names = KINDS[kind]
        chosen = draw(st.lists(st.sampled_from(names), min_size=1, max_size=len(names), unique=True))
        out[kind] = {name: draw(st.one_of(st.sampled_from(CONTENT), st.sampled_from(CONTENT_ALL))) for name in chosen}
    return out


_one_layout = {
    "direct": st.one_of(st.none(), files_strategy()),
    "compose": st.one_of(st.none(), files_strategy()),
    "legacy": st.lists(st.tuples(st.sampled_from(["1.0", "7.2", "rawhide", "22"]), files_strategy()), max_size=2, unique_by=lambda t: t[0]),
    "trailing_slash": st.booleans(),
    "extra_dirs": st.lists(st.sampled_from(["logs", "work", "compose.old", "metadata.bak"]), max_size=2, unique=True),
    "access_order": st.permutations(["info", "images", "rpms", "modules"]),
}
# the caller's path is a path, whatever characters its components carry
DIR_NAMES = ["Foo-1.0-20160622.n.0", "Foo-1.0-20160622.n.0", "nightly[x86_64]", "latest-Fedora-*", "what?", "sp ace", "\u00fc\u00f1\u00ed", "a]b[c", "{x,y}", "~tilde", "100%", "dot.", "#hash"]
layout_strategy = st.fixed_dictionaries(dict(_one_layout, then=st.one_of(st.none(), st.fixed_dictionaries(_one_layout)),
                                             dirs=st.tuples(st.sampled_from(["", "", ""] + DIR_NAMES), st.sampled_from(DIR_NAMES))))


def make_text(kind, content, serial):
    """a valid document of the given kind with a distinguishable payload (respin = serial), or invalid content"""
    import productmd.composeinfo
    import productmd.images
    import productmd.rpms
    import productmd.modules
    cls = {"info": productmd.composeinfo.ComposeInfo, "images": productmd.images.Images, "rpms": productmd.rpms.Rpms,
           "modules": productmd.modules.Modules}[kind]
    obj = cls()
    obj.compose.id, obj.compose.type, obj.compose.date, obj.compose.respin = "Foo-1.0-20160622.n.%d" % serial, "nightly", "20160622", serial
    if kind == "info":
        obj.release.name, obj.release.short, obj.release.version, obj.release.type = "Foo", "Foo", "1.0", "ga"
        if serial % 3:
            # a small forest: a nested variant and a dashed top-level one (keys differ from UIDs)
            from productmd.composeinfo import Variant

            def variant(vid, uid, typ):
                v = Variant(obj)
                v.id, v.uid, v.name, v.type, v.arches = vid, uid, vid, typ, set(["x86_64"])
                return v
            server = variant("Server", "Server", "variant")
            obj.variants.add(server)
            server.add(variant("optional", "Server-optional", "optional"))
            if serial % 3 == 2:
                obj.variants.add(variant("ClientTools", "Client-Tools", "variant"))
    elif kind == "rpms":
        obj.add("Server", "x86_64", "pkg%d-0:1-1.x86_64" % serial, "p/x.rpm", None, "binary", "pkg%d-0:1-1.src" % serial)
    elif kind == "modules":
        obj.add("Server", "x86_64", "mod:%d" % serial, "tag", "p", "binary", [])
    text = obj.dumps()
    if content == "valid":
        return text
    if content == "bom":
        return b"\xef\xbb\xbf" + text.encode("utf-8")
    if content == "utf-16":
        return text.encode("utf-16")
    if content == "not-json":
        return text[:len(text) // 2]
    if content == "empty":
        return ""
    doc = json.loads(text)
    if content.startswith("version:"):
        doc["header"]["version"] = content[len("version:"):]
        return json.dumps(doc)
    if content.startswith("shape:"):
        what = content[len("shape:"):]
        if what.startswith("body-") and kind in ("rpms", "modules"):
            what = what.replace("body-", "compose-")      # these two store the body as given; only header and compose section are checked
        if what in ("{}", "[]", "null", "1"):
            return what
        if what == "string":
            return json.dumps(text[:20])
        holder, key = {"payload": (doc, "payload"), "header": (doc, "header"), "compose": (doc["payload"], "compose"),
                       "body": (doc["payload"], BODY_KEY[kind])}.get(what.split("-")[0], (None, None))
        if what.endswith(("-null", "-list", "-number")) and holder is not None:
            holder[key] = None if what.endswith("-null") else [] if what.endswith("-list") else 5
        elif what == "header-only":
            del doc["payload"]
        elif what == "no-header":
            del doc["header"]
        elif what == "no-type":
            del doc["header"]["type"]
        elif what == "version-number":
            doc["header"]["version"] = 1.2
        elif what == "version-null":
            doc["header"]["version"] = None
        else:
            raise AssertionError(what)
        return json.dumps(doc)
    if content == "foreign-type":
        doc["header"]["type"] = "productmd.discinfo" if kind != "info" else "productmd.images"
    elif content == "bad-field":
        doc["payload"]["compose"]["type"] = "bogus"
    elif content == "missing-section":
        del doc["payload"]["compose"]
    return json.dumps(doc)


def populate(root, layout, serial):
    """(re)creates the directory from a layout description; returns locations and the content class of every placed file"""
    if os.path.isdir(root):
        shutil.rmtree(root)
    os.mkdir(root)
    locations = {}        # relative location ("" / "compose" / "1.0") -> {kind: {filename: content}}
    if layout["direct"] is not None:
        locations[""] = layout["direct"]
    if layout["compose"] is not None:
        locations["compose"] = layout["compose"]
    for name, files in layout["legacy"]:
        locations[name] = files
    placed = {}
    for loc in sorted(locations):
        mdir = os.path.join(root, loc, "metadata") if loc else os.path.join(root, "metadata")
        os.makedirs(mdir)
        for kind in sorted(locations[loc]):
            for fname in sorted(locations[loc][kind]):
                serial += 1
                text = make_text(kind, locations[loc][kind][fname], serial)
                with open(os.path.join(mdir, fname), "wb" if isinstance(text, bytes) else "w") as fo:
                    fo.write(text)
                placed[(loc, kind, fname)] = locations[loc][kind][fname]
    for d in layout["extra_dirs"]:
        os.makedirs(os.path.join(root, d), exist_ok=True)
    with open(os.path.join(root, "README"), "w") as fo:
        fo.write("x")
    return locations, placed, serial


def probe(tmp, root, locations, layout):
    """opens the directory with a NEW Compose object and compares everything it offers with the layout description"""
    import productmd.compose
    import productmd.composeinfo
    import productmd.images
    import productmd.rpms
    import productmd.modules
    classes = {"info": productmd.composeinfo.ComposeInfo, "images": productmd.images.Images, "rpms": productmd.rpms.Rpms,
               "modules": productmd.modules.Modules}
    if True:
        arg = root + ("/" if layout["trailing_slash"] else "")
        compose = must("open", productmd.compose.Compose, arg)
        resolved = os.path.relpath(os.path.normpath(compose.compose_path), root)
        resolved = "" if resolved == "." else resolved
        if "compose" in locations and "info" in locations["compose"]:
            check(resolved == "compose", "compose-subdir-not-preferred", lambda: "compose/metadata/composeinfo.json exists but the compose resolved to %r" % (resolved or "<path itself>"))
        elif locations:
            check(resolved in locations, "resolved-to-location-without-metadata", lambda: "metadata exists under %r but the compose resolved to %r" % (
                sorted(l or "<path itself>" for l in locations), resolved or "<path itself>"))
        else:
            check(resolved == "", "resolved-elsewhere", "no metadata anywhere but resolved to %r" % resolved)
        here = locations.get(resolved, {})
        mdir = os.path.join(root, resolved, "metadata") if resolved else os.path.join(root, "metadata")
        # what a directory resolves to does not depend on the order in which its parts are asked for: a second object, asked in
        # the opposite order, gives the same answers
        mirror = must("open-second-object", productmd.compose.Compose, arg)
        mirrored = {}
        for kind in reversed(layout["access_order"]):
            try:
                mirrored[kind] = ("object", getattr(mirror, kind).dumps())
            except Exception as exc:  # noqa
                mirrored[kind] = ("error", type(exc).__name__)
        for kind in layout["access_order"]:
            candidates = here.get(kind, {})
            opened = []
            real_open = builtins.open

            def tracing_open(file, *a, **kw):
                if isinstance(file, str) and file.startswith(tmp):
                    opened.append(os.path.basename(file))
                return real_open(file, *a, **kw)
            builtins.open = tracing_open
            try:
                obj = getattr(compose, kind)
                err = None
            except Exception as exc:  # noqa
                obj, err = None, exc
            finally:
                builtins.open = real_open
            answer = ("object", obj.dumps()) if err is None else ("error", type(err).__name__)
            check(answer == mirrored[kind], "answer-depends-on-access-order", lambda: "%s: asked in the order %r this object gave %s, a second object asked in the opposite order gave %s" % (
                kind, list(layout["access_order"]), answer[0] if answer[0] == "object" else answer, mirrored[kind][0] if mirrored[kind][0] == "object" else mirrored[kind]))
            if err is None:
                # whatever order the candidates are probed in: a file that was opened and found unusable must surface,
                # it must not be skipped silently in favour of another candidate
                swallowed = [f for f in opened if candidates.get(f, "valid") != "valid"]
                check(not swallowed, "unusable-file-silently-skipped", lambda: "%s: %r was read, is unusable (%s), and the access still succeeded" % (
                    kind, swallowed[0], candidates[swallowed[0]]))
            if err is not None:
                # the failure is not cached away: asking again fails again, in the same way
                try:
                    getattr(compose, kind)
                    err2 = None
                except Exception as exc:  # noqa
                    err2 = exc
                check(err2 is not None and type(err2) is type(err), "failure-not-repeated", lambda: "%s: first access raised %s, second access %s" % (
                    kind, type(err).__name__, "returned an object" if err2 is None else "raised %s" % type(err2).__name__))
            if not candidates:
                check(isinstance(err, RuntimeError), "missing-file-not-runtimeerror", lambda: "%s: no file in %r, got %r" % (kind, resolved, err if err else "an object"))
                check(os.path.normpath(compose.compose_path) in os.path.normpath(str(err).split(" ")[-1]) or os.path.basename(os.path.normpath(compose.compose_path)) in str(err),
                      "error-does-not-name-location", lambda: "%s: %s" % (kind, err))
                continue
            if err is not None:
                # acceptable only if some candidate file really is unusable
                bad = [f for f, c in candidates.items() if c != "valid"]
                check(bad, "valid-file-not-loaded", lambda: "%s: valid file(s) %r in %r but access raised %s: %s" % (kind, sorted(candidates), resolved, type(err).__name__, err))
                if all(must_be_runtime_error(c) for c in candidates.values()):
                    check(isinstance(err, RuntimeError), "undecodable-file-not-runtimeerror", lambda: "%s: %r raised %s: %s" % (kind, candidates, type(err).__name__, err))
                    check(any(f in str(err) for f in candidates) or "metadata" in str(err), "error-does-not-name-location", lambda: "%s: %s" % (kind, err))
                continue
            # success: must equal a direct load of one of the valid candidates
            text = obj.dumps()
            matches = []
            for fname, content in candidates.items():
                if content != "valid":
                    continue
                direct = classes[kind]()
                direct.load(os.path.join(mdir, fname))
                if direct.dumps() == text:
                    matches.append(fname)
            if kind == "info" and matches:
                # using the object (read-only: look every variant up, list them) leaves it equal to a direct load that is used the same way
                def snap(ci):
                    return {"top": sorted(ci.variants.variants), "len": len(ci.variants), "iter": list(ci.variants), "all": [v.uid for v in ci.get_variants(recursive=True)],
                            "nested": dict((v.uid, sorted(v.variants)) for v in ci.get_variants(recursive=True))}
                direct = classes[kind]()
                direct.load(os.path.join(mdir, matches[0]))
                fresh = snap(direct)
                for uid in fresh["all"]:
                    check(obj[uid].uid == uid, "lookup-in-reused-object", "info[%r] returned %r" % (uid, obj[uid].uid))
                used = snap(obj)
                check(used == fresh, "object-changed-by-reading-it",
                      lambda: "info: after looking its variants up the reused object lists %r, a direct load of %s lists %r" % (used, matches[0], fresh))
            check(matches, "loaded-object-differs-from-direct-load", lambda: "%s: object from %r equals none of the candidate files %r" % (kind, resolved, sorted(candidates)))
            check(isinstance(obj, classes[kind]), "wrong-class", "%s returned %r" % (kind, type(obj)))
            # cached: delete the files, re-access must give the identical object without re-reading
            for fname in candidates:
                os.unlink(os.path.join(mdir, fname))
            again = must("re-access", lambda: getattr(compose, kind))
            check(again is obj, "not-cached", "%s: second access returned a different object" % kind)
    return resolved


def layout_case(case):
    tmp = tempfile.mkdtemp(prefix="c20-")
    try:
        parent, name = case.get("dirs") or ("", "Foo-1.0-20160622.n.0")
        if parent:
            os.mkdir(os.path.join(tmp, parent))
        root = os.path.join(tmp, parent, name)
        locations, placed, serial = populate(root, case, 0)
        resolved = probe(tmp, root, locations, case)
        labels = []
        if case.get("then"):
            # the directory is rebuilt under the same path (a compose being re-synced, a mirror catching up): a NEW Compose object
            # describes what is there now - what an earlier object saw is that object's business only
            then = case["then"]
            try:
                locations2, placed2, serial = populate(root, then, serial)
                probe(tmp, root, locations2, then)
            except Violation as v:
                raise Violation("after-directory-change/" + v.bucket, "second Compose object on the same path after the directory was rebuilt: " + v.message)
            labels.append("reopened-after-change")
        nlocs = len(locations)
        legacy_name = any(f in ("image-manifest.json", "rpm-manifest.json") for (l, k, f) in placed)
        invalid = any(c != "valid" for c in placed.values())
        labels += [">=2-locations"] if nlocs >= 2 else []
        labels += (["legacy-name"] if legacy_name else []) + (["invalid-content"] if invalid else []) + (["trailing-slash"] if case["trailing_slash"] else [])
        labels += ["resolved:" + ("direct" if resolved == "" else "compose" if resolved == "compose" else "legacy")]
        if any(ch in parent + name for ch in "[]*?{}"):
            labels.append("pattern-characters-in-path")
        if "compose" in locations and "info" not in locations["compose"]:
            labels.append("compose-subdir-without-composeinfo")
        return {"nontrivial": nlocs >= 2 or legacy_name or invalid, "labels": labels}
    finally:
        shutil.rmtree(tmp, ignore_errors=True)


def run(ctx):
    ctx.forall("layouts", layout_strategy, layout_case, ctx.n(2400, 48000))


REPLAY = {"layouts": layout_case}
