"""C05 Older format versions are upgraded faithfully and idempotently."""
import glob
import copy
import json
import os

from hypothesis import strategies as st

from pbt import ci as cim, im as imm, ti as tim, manifests as mf, downconvert as dc
from pbt.props.c01 import diff
from pbt.runner import must, check, Violation, REPO
from pbt.poison import poison

PROPERTY = "C05"
LEVEL = "exploration"
RULE = ("(generated) valid current descriptions (C01/C02/C03/C04 generators) are written the way an older library would have "
        "written them, following doc/*-1.0.rst, *-1.1.rst and the documented legacy mappings: composeinfo 1.1, 1.0 (no header "
        "type, no release/base-product type), 0.9/0.4 (no child lists: relations only by UID prefix), 0.3 ('product' "
        "section), 0.2/0.0 (compose date/type/respin only inside the id); images 1.1/1.0 (no subvariant, 'src' cells); rpms "
        "1.1/1.0 and 0.3 ('manifest' table, 'src' arch); treeinfo 1.1/1.0, 0.3 ([product], source paths under binary option "
        "names in src trees) and 0.0 (only the compatibility sections). Oracle: load succeeds; header version is current "
        "afterwards; snapshot equals the one predicted from the ORIGINAL description under the documented mapping; the dump "
        "carries the current version and proper type; re-loading the dump gives an equal snapshot; second dump byte-identical. "
        "(fixtures) every .treeinfo / .discinfo / images / composeinfo fixture shipped under tests/: accepted => written, "
        "re-read equal, second dump identical. Non-trivial = document version < current and the conversion had something to "
        "convert; distinct = SHA-1 of description+version (or fixture path). JSON documents are additionally handed over as ONE parsed dict feeding two readers (the dict must stay unmodified), and an rpms document is loaded into an object that already served another load while the caller still holds the earlier mapping.")
ASSUMPTIONS = ["composeinfo 0.x has no format document: the down-conversion follows the mapping the legacy readers document in their code comments",
               "images 1.0 documents whose identities collide once the subvariant defaults to '' are a recorded known finding (KF-C05-images-1.0-collision) and are not generated",
               "treeinfo 0.0: family names triggering the RHEL/Fedora/CentOS heuristics, versions containing '-'/'_', dashed main variants and timestamps truncating to 0 are not generated"]
FLOORS = {"treeinfo:children-under-variants-key": 30, "treeinfo-pre-productmd-addons:explicit-kind": 50, "composeinfo": 300, "images": 150, "rpms": 150, "treeinfo": 300, "fixtures": 100,
          "composeinfo:v0.0": 20, "composeinfo:v0.3": 20, "composeinfo:v0.9": 20, "composeinfo:v1.0": 20, "composeinfo:v1.1": 20,
          "treeinfo:v0.0": 30, "treeinfo:v0.3": 30, "treeinfo:v1.0": 30, "treeinfo:v1.1": 30, "images:v1.0": 30, "images:v1.1": 30,
          "rpms:v0.3": 30, "rpms:v1.0": 20, "rpms:v1.1": 20}


def upgrade_cycle(kind, cls, old_text, snap_fn, want, type_name, dump=None):
    """the common oracle; returns the first dump"""
    obj = cls()
    must("load-older-format[%s]" % kind, obj.loads, old_text)
    check(obj.header.version == "1.2", "header-version-after-load", "%s: header.version after load is %r" % (kind, obj.header.version))
    got = must("snapshot", snap_fn, obj)
    d = diff(want, got)
    check(d is None, "upgrade-differs-from-description[%s]" % kind, lambda: "%s: predicted(description) vs loaded object: %s" % (kind, d))
    dump = dump or (lambda o: o.dumps())
    first = must("dump-after-upgrade[%s]" % kind, dump, obj)
    if type_name == "productmd.treeinfo":
        header = tim.read_ini(first).get("header", {})
    else:
        header = json.loads(first)["header"]
    check(header == {"type": type_name, "version": "1.2"}, "header-of-upgraded-file", lambda: "%s: header written %r" % (kind, header))
    again = cls()
    must("reload-upgraded-file[%s]" % kind, again.loads, first)
    d = diff(want, must("snapshot", snap_fn, again))
    check(d is None, "reload-differs[%s]" % kind, lambda: "%s: object re-read from the upgraded file differs: %s" % (kind, d))
    second = must("second-dump[%s]" % kind, dump, again)
    check(second == first, "conversion-not-idempotent[%s]" % kind, "%s: second dump differs from the first" % kind)
    if type_name != "productmd.treeinfo":
        # one already parsed document feeding two objects: the document stays the caller's, both readers see the same
        parsed = json.loads(old_text)
        before = copy.deepcopy(parsed)
        for n in (1, 2):
            reader = cls()
            must("deserialize-parsed-document[%s]" % kind, reader.deserialize, parsed)
            check(parsed == before, "caller-document-modified[%s]" % kind, lambda: "%s: the parsed document handed to deserialize() was modified: %s" % (kind, diff(before, parsed)))
            d = diff(want, must("snapshot", snap_fn, reader))
            check(d is None, "upgrade-differs-from-description[%s]" % kind, lambda: "%s: reader #%d of the same parsed document: %s" % (kind, n, d))
    poison(obj), poison(again)
    return first


OTHER_RPMS = {"header": {"type": "productmd.rpms", "version": "1.2"},
              "payload": {"compose": {"id": "Other-1-20200101.0", "type": "production", "date": "20200101", "respin": 0},
                          "rpms": {"Other": {"x86_64": {"o-0:1-1.src": {"o-0:1-1.x86_64": {"path": "o/o.rpm", "sigkey": None, "category": "binary"}}}}}}}


def composeinfo_case(case):
    from productmd.composeinfo import ComposeInfo
    doc = dc.legacy_ci_doc(case)
    want = dc.legacy_ci_expected(case)
    first = upgrade_cycle("composeinfo " + case["version"], ComposeInfo, json.dumps(doc), cim.snapshot, want, "productmd.composeinfo")
    # the upgraded file is exactly what the current writer produces for the (mapped) description
    mapped = dc.copy_desc(case["desc"])
    if dc.vtuple(case["version"]) < (1, 1):
        mapped["release"]["type"], mapped["release"]["internal"] = "ga", False
        if mapped["base_product"]:
            mapped["base_product"]["type"] = "ga"
        for n in cim.all_nodes(mapped["variants"]):
            if "release" in n:
                n["release"]["type"], n["release"]["internal"] = "ga", False
    d = diff(cim.expected_doc(mapped), json.loads(first))
    check(d is None, "upgraded-document-differs", lambda: "composeinfo %s: reference current document vs upgraded file: %s" % (case["version"], d))
    v = dc.vtuple(case["version"])
    desc = case["desc"]
    converted = (v < (1, 1) and (desc["release"]["type"] != "ga" or desc["layered"])) or (v < (1, 0) and any(n["children"] for n in desc["variants"])) or v < (0, 3) or v <= (0, 3)
    return {"nontrivial": bool(converted), "labels": ["v" + case["version"]] + (["prefix-children"] if v < (1, 0) and any(n["children"] for n in desc["variants"]) else [])}


def images_case(desc):
    from productmd.images import Images
    doc = dc.legacy_images_doc(desc)
    want_cells = dc.legacy_images_expected_cells(desc)

    def snap(im):
        return {"cells": {"%s/%s" % k: v for k, v in imm.snap_cells(im).items() if v}, "compose": imm.snap_compose(im.compose)}
    want = {"cells": {"%s/%s" % k: v for k, v in want_cells.items()}, "compose": imm.expected_compose(desc["compose"])}
    upgrade_cycle("images " + desc["version"], Images, json.dumps(doc), snap, want, "productmd.images")
    src = any(lay["has_src"] for lay in desc["layout"].values())
    return {"nontrivial": src or desc["version"] == "1.0", "labels": ["v" + desc["version"]] + (["src-cell"] if src else [])}


def rpms_case(case):
    from productmd.rpms import Rpms
    if case["kind"] == "0.3":
        desc = case["desc"]
        doc = dc.legacy_rpms_doc(desc)
        want = {"rpms": dc.legacy_rpms_expected(desc), "compose": imm.expected_compose(desc["compose"])}
        version = "0.3"
    else:
        model = {}
        for op in case["desc"]["ops"]:
            mf.rpm_model_apply(model, op)
        version = case["kind"]
        header = {"version": version}
        if version == "1.1":
            header["type"] = "productmd.rpms"
        comp = {"id": "F-22-20160622.n.3", "type": "nightly", "date": "20160622", "respin": 3}
        doc = {"header": header, "payload": {"compose": comp, "rpms": model}}
        want = {"rpms": model, "compose": dict(comp, label=None, final=False)}

    def snap(r):
        return {"rpms": r.rpms, "compose": imm.snap_compose(r.compose)}
    first = upgrade_cycle("rpms " + version, Rpms, json.dumps(doc), snap, want, "productmd.rpms")
    payload = json.loads(first)["payload"]
    check("manifest" not in payload and diff(want["rpms"], payload["rpms"]) is None, "upgraded-document-differs", "rpms %s: upgraded file payload differs from the prediction" % version)
    # a manifest object that already served another load: the older document replaces its content, and what the caller took
    # from the first load stays what it was
    used = Rpms()
    must("load-other-document", used.loads, json.dumps(OTHER_RPMS))
    held = used.rpms
    held_before = copy.deepcopy(held)
    must("load-older-format-into-used-object[rpms %s]" % version, used.loads, json.dumps(doc))
    check(held == held_before, "earlier-result-changed-by-later-load", lambda: "rpms %s: the mapping obtained from an earlier load changed when the same object loaded another document: %s" % (
        version, diff(held_before, held)))
    d = diff(want, snap(used))
    check(d is None, "upgrade-differs-from-description[rpms %s]" % version, lambda: "rpms %s loaded into a used object: %s" % (version, d))
    return {"nontrivial": True, "labels": ["v" + version]}


def treeinfo_case(case):
    from productmd.treeinfo import TreeInfo
    desc, version = case["desc"], case["version"]
    main = desc["main_variant"] if case["use_main"] else None
    if version == "0.0":
        main_uid = main if main is not None else sorted(n["uid"] for n in desc["variants"])[0]
        if "-" in main_uid or abs(desc["tree"]["build_timestamp"]) < 1:
            return {"nontrivial": False, "labels": ["skipped"]}
    current = must("dump-current", tim.dump_text, must("build", tim.build_ti, desc, 0), main)
    old_text = dc.legacy_ti_text(case, current)
    want = dc.legacy_ti_expected(case)
    upgrade_cycle("treeinfo " + version, TreeInfo, old_text, tim.snapshot, want, "productmd.treeinfo", dump=lambda o: tim.dump_text(o, None))
    src = desc["tree"]["arch"] == "src"
    kids_under_variants = version != "0.0" and case.get("child_keys", "as-written") != "as-written" and any(
        k["type"] != "addon" or case["child_keys"] == "all-variants" for n in tim.all_nodes(desc["variants"]) for k in n["children"])
    return {"nontrivial": True, "labels": ["v" + version] + (["src-tree"] if src else []) + (["children-under-variants-key"] if kids_under_variants else [])}


# ---- pre-productmd trees with add-on sections (the RHEL 6 shape) ----------------------------------------------------------
_addon = st.fixed_dictionaries({"name": st.sampled_from(["High Availability", "Load Balancer", "Resilient Storage", "X", "Scalable File System"]),
                                "repo_style": st.sampled_from(["id", "addons/id"]), "packages": st.booleans(), "identity": st.booleans(),
                                "explicit_type": st.booleans(), "name_given": st.integers(0, 4).map(lambda i: i > 0),
                                # the repository is the directory that holds repodata/, however the producer spelled it
                                "repo_spelling": st.sampled_from(["", "", "/", "/repodata", "/repodata/"])})
pre_addons_strategy = st.fixed_dictionaries({
    "family": st.sampled_from(["Red Hat Enterprise Linux", "Foo Linux", "CentOS"]), "version": st.sampled_from(["6.5", "6.0", "3.1", "12"]),
    "main": st.sampled_from(["Server", "Client", "Workstation", "ComputeNode"]), "main_section": st.sampled_from([None, "plain", "typed"]),
    "arch": st.sampled_from(["x86_64", "i386", "ppc64"]),
    "addons": st.dictionaries(st.sampled_from(["HighAvailability", "LoadBalancer", "ResilientStorage", "HA", "LB", "ScalableFileSystem"]), _addon, min_size=1, max_size=3)})


def pre_addons_text(case, explicit):
    ids = sorted(case["addons"])
    out = ["[general]", "family = %s" % case["family"], "version = %s" % case["version"], "variant = %s" % case["main"], "addons = %s" % ",".join(ids),
           "arch = %s" % case["arch"], "timestamp = 1384196515.415715", "packagedir = Packages", "repository = .", ""]
    if case["main_section"]:
        out += ["[variant-%s]" % case["main"], "name = %s" % case["main"], "repository = ."]
        if case["main_section"] == "typed" and explicit:
            out.append("type = variant")
        out.append("")
    for i in ids:
        a = case["addons"][i]
        repo = i if a["repo_style"] == "id" else "addons/" + i
        out += ["[addon-%s]" % i, "repository = %s%s" % (repo, a.get("repo_spelling", ""))]
        if a["name_given"]:
            out.append("name = %s" % a["name"])
        if a["packages"]:
            out.append("packages = %s/Packages" % repo)
        if a["identity"]:
            out.append("identity = %s/%s.cert" % (repo, i))
        if a["explicit_type"] and explicit:
            out.append("type = addon")
        out.append("")
    return "\n".join(out)


def pre_addons_case(case):
    """oracle: (a) what the sections say about each add-on (id, UID below the main variant, name, kind, repository) is what the tree holds;
    (b) metamorphic: stating the kind a section's name already implies ('type = addon' in [addon-X]) changes nothing; (c) upgrade cycle"""
    from productmd.treeinfo import TreeInfo
    plain, typed = pre_addons_text(case, False), pre_addons_text(case, True)
    snaps = []
    for label, text in (("plain", plain), ("explicit-kinds", typed)):
        ti = TreeInfo()
        must("load-pre-productmd[%s]" % label, ti.loads, text)
        main = ti.variants.variants.get(case["main"])
        check(main is not None and sorted(ti.variants.variants) == [case["main"]], "pre-productmd-main-variant", lambda: "%s: top level holds %r" % (label, sorted(ti.variants.variants)))
        got = dict((v.id, (v.uid, v.name, v.type, v.paths.repository)) for v in main.variants.values())
        want = {}
        for i, a in case["addons"].items():
            want[i] = ("%s-%s" % (case["main"], i), a["name"] if a["name_given"] else i, "addon", i if a["repo_style"] == "id" else "addons/" + i)
        check(got == want, "pre-productmd-addons-differ", lambda: "%s: sections say %r, tree holds %r" % (label, want, got))
        snap = must("snapshot", tim.snapshot, ti)
        snaps.append(snap)
        first = must("dump-after-upgrade[pre-productmd]", ti.dumps)
        again = TreeInfo()
        must("reload-upgraded-file[pre-productmd]", again.loads, first)
        d = diff(json.loads(json.dumps(snap, default=list)), json.loads(json.dumps(tim.snapshot(again), default=list)))
        check(d is None, "reload-differs[pre-productmd]", lambda: "%s: %s" % (label, d))
        check(must("second-dump", again.dumps) == first, "conversion-not-idempotent[pre-productmd]", "%s: second dump differs" % label)
    d = diff(json.loads(json.dumps(snaps[0], default=list)), json.loads(json.dumps(snaps[1], default=list)))
    check(d is None, "explicit-kind-changes-tree", lambda: "the same tree with the kinds of its sections spelled out: %s" % d)
    return {"nontrivial": plain != typed, "labels": ["explicit-kind" if plain != typed else "no-explicit-kind", "%d-addons" % len(case["addons"])]
            + sorted(set("repository-spelled:%s" % (a.get("repo_spelling") or "plain") for a in case["addons"].values()))}


def fixture_cases():
    tests = os.path.join(os.path.realpath(REPO), "tests")
    for path in sorted(glob.glob(os.path.join(tests, "treeinfo", "*"))):
        yield {"kind": "treeinfo", "path": os.path.relpath(path, tests)}
    for path in sorted(glob.glob(os.path.join(tests, "discinfo", "*"))):
        yield {"kind": "discinfo", "path": os.path.relpath(path, tests)}
    for path in sorted(glob.glob(os.path.join(tests, "images", "*.json"))):
        yield {"kind": "images", "path": os.path.relpath(path, tests)}
    for path in sorted(glob.glob(os.path.join(tests, "compose*", "*", "metadata", "composeinfo.json"))):
        yield {"kind": "composeinfo", "path": os.path.relpath(path, tests)}


def fixture_case(case):
    from productmd.treeinfo import TreeInfo
    from productmd.discinfo import DiscInfo
    from productmd.images import Images
    from productmd.composeinfo import ComposeInfo
    cls = {"treeinfo": TreeInfo, "discinfo": DiscInfo, "images": Images, "composeinfo": ComposeInfo}[case["kind"]]
    snap = {"treeinfo": tim.snapshot, "images": lambda im: {"%s/%s" % k: v for k, v in imm.snap_cells(im).items() if v}, "composeinfo": cim.snapshot,
            "discinfo": lambda d: [d.timestamp, d.description, d.arch, d.disc_numbers]}[case["kind"]]
    path = os.path.join(os.path.realpath(REPO), "tests", case["path"])
    obj = cls()
    try:
        obj.load(path)
    except Exception:  # noqa  (not accepted: outside the claim, e.g. fedora-8 'development' trees)
        return {"nontrivial": False, "labels": ["not-accepted"]}
    if case["kind"] == "images" and os.path.basename(path) == "f20.json":
        pass
    first = must("dump-accepted-fixture", obj.dumps)
    if case["kind"] != "discinfo":
        check(obj.header.version == "1.2", "header-version-after-load", "%s: %r" % (case["path"], obj.header.version))
    again = cls()
    must("reload-upgraded-fixture", again.loads, first)
    d = diff(json.loads(json.dumps(snap(obj), default=list)), json.loads(json.dumps(snap(again), default=list)))
    check(d is None, "reload-differs[fixture]", lambda: "%s: %s" % (case["path"], d))
    second = must("second-dump", again.dumps)
    check(second == first, "conversion-not-idempotent[fixture]", "%s: second dump differs" % case["path"])
    return {"nontrivial": True, "labels": [case["kind"]]}


rpms_strategy = st.one_of(
    st.fixed_dictionaries({"kind": st.just("0.3"), "desc": dc.legacy_rpms_desc()}),
    st.fixed_dictionaries({"kind": st.sampled_from(["1.0", "1.1"]), "desc": mf.rpm_history(allow_breaks=False)}),
)


def witness_images_10_collision():
    from productmd.images import Images
    rec = {"path": "a.iso", "mtime": 1, "size": 1, "volume_id": None, "type": "dvd", "format": "iso", "arch": "x86_64", "disc_number": 1, "disc_count": 1,
           "checksums": {"sha256": "aa"}, "implant_md5": None, "bootable": False}
    doc = {"header": {"version": "1.0"}, "payload": {"compose": {"id": "F-20-20131212.0", "type": "production", "date": "20131212", "respin": 0},
                                                    "images": {"Fedora": {"x86_64": [rec, dict(rec, path="b.iso", checksums={"sha256": "bb"})]}}}}
    im = Images()
    im.loads(json.dumps(doc))
    text = im.dumps()
    try:
        Images().loads(text)
    except ValueError as exc:
        return ("images 1.0 document with two images equal in (type, format, arch, disc_number) and different checksums is accepted and "
                "written as 1.2, but that file is rejected on reload (%s...)" % str(exc)[:60])
    return None


WITNESSES = {"KF-C05-images-1.0-collision": witness_images_10_collision}


def run(ctx):
    ctx.forall("composeinfo", dc.legacy_ci_desc(), composeinfo_case, ctx.n(1400, 40000))
    ctx.forall("images", dc.legacy_images_desc(), images_case, ctx.n(600, 20000))
    ctx.forall("rpms", rpms_strategy, rpms_case, ctx.n(700, 20000))
    ctx.forall("treeinfo", dc.legacy_ti_desc(), treeinfo_case, ctx.n(1400, 40000))
    ctx.forall("treeinfo-pre-productmd-addons", pre_addons_strategy, pre_addons_case, ctx.n(500, 10000))
    ctx.sweep("fixtures", fixture_cases(), fixture_case, exhaustive=True, stop_after=10)


REPLAY = {"treeinfo-pre-productmd-addons": pre_addons_case, "composeinfo": composeinfo_case, "images": images_case, "rpms": rpms_case, "treeinfo": treeinfo_case, "fixtures": fixture_case}
