"""C03 RPM, module and extra-file manifests survive a write/read cycle unchanged."""
import copy
import io
import json

from hypothesis import strategies as st

from pbt import gen
from pbt import manifests as mf
from pbt.props.c01 import diff
from pbt.runner import must, check
from pbt.poison import poison

PROPERTY = "C03"
LEVEL = "exploration"
RULE = ("Generated histories of VALID add calls (the C12 generators restricted to accepted calls: several variants/arches, "
        "source packages with several binary/debug members, epochs != 0, dashed/digit names, null and mixed-case signing "
        "keys, module UIDs with 2-4 parts added in several categories incl. repeated RPMs in a module's list, extra files "
        "with several checksum types) build a manifest which is dumped and re-read; the re-read public mapping must equal "
        "the mapping predicted by the reference model for that history (not the first object's mapping), the compose "
        "section must survive, the second dump must be byte-identical and the JSON document must equal the reference "
        "document. Non-trivial = >= 2 variants or >= 2 arches or a source package with >= 2 entries; distinct = SHA-1 of "
        "the history. Histories contain refused adds as well: what was refused leaves no trace in what is written and read back.")
ASSUMPTIONS = ["json (stdlib) is a correct JSON reader"]
FLOORS = {"rpms": 200, "modules": 200, "extra-files": 100}

COMPOSE_DOC = {"id": "F-22-20160622.n.3", "type": "nightly", "date": "20160622", "respin": 3}


def _roundtrip(kind, cls, attr, obj, model):
    text = must("dumps-valid-manifest", obj.dumps)
    again = gen.give_past(cls(), gen.past_of(text))
    must("loads", again.loads, text)
    got = getattr(again, attr)
    d = diff(model, got)
    check(d is None, "mapping-differs-after-reload", lambda: "%s: model vs re-read mapping: %s" % (kind, d))
    c = again.compose
    check((c.id, c.type, c.date, c.respin, c.label, c.final) == ("F-22-20160622.n.3", "nightly", "20160622", 3, None, False),
          "compose-section-differs", "compose section after reload: %r" % ((c.id, c.type, c.date, c.respin, c.label, c.final),))
    check(again.header.version == "1.2", "header-version", "%r" % again.header.version)
    text2 = must("second-dumps", again.dumps)
    check(text2 == text, "second-dump-differs", lambda: "first and second dump differ: %s" % diff(json.loads(text), json.loads(text2)))
    doc = json.loads(text)
    want = {"header": {"type": "productmd.%s" % kind, "version": "1.2"}, "payload": {"compose": COMPOSE_DOC, attr: model}}
    d = diff(want, doc)
    check(d is None, "document-differs-from-model", lambda: "%s" % d)
    canonical = json.dumps(doc, indent=4, sort_keys=True, separators=(",", ": "))
    check(text == canonical, "not-canonical-json", "dump is not sort_keys/indent=4 JSON of its own content")
    variants = len(model)
    arches = len(set(a for v in model.values() for a in v))
    poison(obj), poison(again), poison(doc)
    return variants, arches


def _attempt(fn, *args):
    try:
        fn(*args)
    except Exception:  # noqa
        pass


def rpms_case(case):
    from productmd.rpms import Rpms
    obj, model = Rpms(), {}
    mf.fill_compose(obj)
    for op in case["ops"]:
        if mf.forget(obj, obj.rpms, model, op):
            continue
        trial = copy.deepcopy(model)
        if mf.rpm_model_apply(trial, op):
            must("add-valid", mf.rpm_call, obj, op)
            model = trial
        else:
            # an add the library refuses (C12 checks that it does) leaves no trace in what is written and read back
            _attempt(mf.rpm_call, obj, op)
    variants, arches = _roundtrip("rpms", Rpms, "rpms", obj, model)
    multi = any(len(pk) >= 2 for v in model.values() for a in v.values() for pk in a.values())
    epochs = any(not key.split(":")[0].endswith("-0") for v in model.values() for a in v.values() for pk in a.values() for key in pk)
    return {"nontrivial": variants >= 2 or arches >= 2 or multi,
            "labels": (["multi-member-srpm"] if multi else []) + (["epoch!=0"] if epochs else []) + (["empty"] if not model else [])}


def modules_case(case):
    from productmd.modules import Modules
    obj, model = Modules(), {}
    mf.fill_compose(obj)
    caller = mf.ModuleCaller(case["lists"])
    for op in case["ops"]:
        if mf.forget(obj, obj.modules, model, op):
            continue
        trial = copy.deepcopy(model)
        if mf.module_model_apply(trial, op, case["lists"]):
            must("add-valid", caller.call, obj, op)
            model = trial
        else:
            # an add the library refuses (C12 checks that it does) leaves no trace in what is written and read back
            _attempt(caller.call, obj, op)
    variants, arches = _roundtrip("modules", Modules, "modules", obj, model)
    cats = any(len(e["modulemd_path"]) >= 2 for v in model.values() for a in v.values() for e in a.values())
    dup = any(len(set(e["rpms"])) < len(e["rpms"]) for v in model.values() for a in v.values() for e in a.values())
    return {"nontrivial": variants >= 2 or arches >= 2 or cats,
            "labels": (["several-categories"] if cats else []) + (["repeated-rpm-in-list"] if dup else []) + (["empty"] if not model else [])}


def extra_case(case):
    from productmd.extra_files import ExtraFiles
    obj, model = ExtraFiles(), {}
    mf.fill_compose(obj)
    for n, op in enumerate(case["ops"]):
        if mf.forget(obj, obj.extra_files, model, op):
            continue
        if n % 3 == 2 and model:
            # a per-tree dump in between is a dump, not an edit: what is read back later is what was added
            v = sorted(model)[0]
            for a in sorted(model[v]):
                base = model[v][a][0]["file"].rsplit("/", 1)[0] if model[v][a] and "/" in model[v][a][0]["file"] else "Server"
                _attempt(obj.dump_for_tree, io.StringIO(), v, a, base)
        trial = copy.deepcopy(model)
        if mf.extra_model_apply(trial, op):
            must("add-valid", mf.extra_call, obj, op)
            model = trial
        else:
            # an add the library refuses (C12 checks that it does) leaves no trace in what is written and read back
            _attempt(mf.extra_call, obj, op)
    variants, arches = _roundtrip("extra_files", ExtraFiles, "extra_files", obj, model)
    multi = any(len(e["checksums"]) >= 2 for v in model.values() for a in v.values() for e in a)
    return {"nontrivial": variants >= 2 or arches >= 2 or multi, "labels": ["multi-checksum"] if multi else []}


def run(ctx):
    ctx.forall("rpms", mf.with_forgets(mf.rpm_history()), rpms_case, ctx.n(1000, 48000))
    ctx.forall("modules", mf.with_forgets(mf.module_history()), modules_case, ctx.n(1000, 48000))
    ctx.forall("extra-files", mf.with_forgets(mf.extra_history()), extra_case, ctx.n(800, 32000))


REPLAY = {"rpms": rpms_case, "modules": modules_case, "extra-files": extra_case}
