"""C15 Compose IDs encode date, type and respin recoverably."""
import itertools
import json

from hypothesis import strategies as st

from pbt import gen, ci as cim
from pbt.runner import must, check, refuses

PROPERTY = "C15"
LEVEL = "exploration"
RULE = ("(create) generated release / optional base product (shorts incl. dashes and Unicode, dotted-numeric and free-form "
        "versions incl. 8+ digit runs, all nine types) x all five compose types x any 8-digit date x respin < 10^7: the id "
        "from ComposeInfo.create_compose_id() must start with short-version[-type], validate as compose.id, and decode to "
        "exactly (date, type, respin); (decode) every documented suffix spelling, missing respin, unknown suffixes; (legacy) "
        "pre-0.3 composeinfo documents whose date/type/respin exist only in the id. Non-trivial = type != production or "
        "respin > 9 or an 8-digit run in the version/short or layered; distinct = SHA-1 of the case. Ids are created again on the same and on a loaded object after the fields changed, and for composes that have variants (including the RHEL-5-on-RHEL-5 family the library treats specially).")
ASSUMPTIONS = ["respins >= 10^7 are a recorded known finding (KF-C15-8digit-respin) and are excluded by construction"]
FLOORS = {"distinct_nontrivial": 1500, "create:digit-run": 50, "create:layered": 200}

SUFFIX_TABLE = {"": "production", ".n": "nightly", ".nightly": "nightly", ".t": "test", ".test": "test", ".ci": "ci", ".d": "development"}

create_strategy = st.fixed_dictionaries({
    "release": gen.release_desc(), "layered": st.booleans(), "base_product": gen.release_desc(with_internal=False),
    "type": st.sampled_from(gen.COMPOSE_TYPES), "date": gen.date8, "respin": gen.respin,
    # everything else a compose carries when its id is created: a milestone label, the final flag
    "label": gen.label, "final": st.booleans(),
    # ids are created for composes that have content: top-level variants present or not (the library looks at them for one
    # release family), and that family itself (RHEL 5 on RHEL 5) now and then
    "variants": st.lists(st.sampled_from(["Client", "Server", "Workstation", "AppStream"]), max_size=3, unique=True),
    "rhel5": st.sampled_from([None, None, None, None, "5", "5.11", "5.0.1", "50", "6.5"]),
    # the usual "id taken - bump the respin and create again" loop, on the same object and on a loaded one
    "next": st.lists(st.fixed_dictionaries({"type": st.one_of(st.none(), st.sampled_from(gen.COMPOSE_TYPES)), "date": st.one_of(st.none(), gen.date8),
                                            "bump": st.integers(0, 3), "on_loaded": st.booleans()}), max_size=3),
})


def has_digit_run(s, n=8):
    run = 0
    for ch in s:
        run = run + 1 if ch.isdigit() else 0
        if run >= n:
            return True
    return False


def create_case(case):
    from productmd.composeinfo import ComposeInfo, Variant, get_date_type_respin
    if case.get("rhel5"):
        case = dict(case, release=dict(case["release"], short="RHEL", version=case["rhel5"]), base_product=dict(case["base_product"], short="RHEL", version=case["rhel5"]))
    ci = ComposeInfo()
    for vid in case.get("variants", []):
        v = Variant(ci)
        v.id, v.uid, v.name, v.type, v.arches = vid, vid, vid, "variant", set(["x86_64"])
        ci.variants.add(v)
    cim.fill_release(ci.release, case["release"], layered=case["layered"])
    if case["layered"] or case.get("rhel5"):
        cim.fill_release(ci.base_product, case["base_product"])
    ci.compose.type, ci.compose.date, ci.compose.respin = case["type"], case["date"], case["respin"]
    if case.get("label"):
        ci.compose.label, ci.compose.final = case["label"], bool(case.get("final"))
    cid = must("create", ci.create_compose_id)
    rel = case["release"]
    prefix = "%s-%s" % (rel["short"], rel["version"]) + ("" if rel["type"] == "ga" else "-" + rel["type"])
    check(isinstance(cid, str) and cid.startswith(prefix + "-"), "prefix", lambda: "id %r does not start with %r" % (cid, prefix + "-"))
    ci.compose.id = cid
    must("own-validation", ci.compose.validate)
    got = must("decode", get_date_type_respin, cid)
    want = (case["date"], case["type"], case["respin"])
    check(got == want, "decode-differs", lambda: "get_date_type_respin(%r) = %r, created from %r" % (cid, got, want))
    check(type(got[2]) is int, "respin-not-int", "%r" % (got[2],))
    # the whole object (release + compose section carrying that id) can be written and read back
    text = must("dumps-with-created-id", ci.dumps)
    again = gen.give_past(ComposeInfo(), gen.past_of(text))
    must("loads-with-created-id", again.loads, text)
    check((again.compose.id, again.compose.date, again.compose.type, again.compose.respin) == (cid,) + want, "reload-differs",
          "compose section after reload: %r" % ((again.compose.id, again.compose.date, again.compose.type, again.compose.respin),))
    cur = {"date": case["date"], "type": case["type"], "respin": case["respin"]}
    for step in case.get("next", []):
        obj = again if step["on_loaded"] else ci
        cur = {"date": step["date"] or cur["date"], "type": step["type"] or cur["type"], "respin": min(cur["respin"] + step["bump"], 10 ** 7 - 1)}
        obj.compose.type, obj.compose.date, obj.compose.respin = cur["type"], cur["date"], cur["respin"]
        nid = must("create-again", obj.create_compose_id)
        check(isinstance(nid, str) and nid.startswith(prefix + "-"), "prefix", lambda: "id %r does not start with %r" % (nid, prefix + "-"))
        got = must("decode", get_date_type_respin, nid)
        check(got == (cur["date"], cur["type"], cur["respin"]), "decode-differs", lambda: "object already carrying id %r: create_compose_id() = %r decodes to %r, fields are %r" % (
            obj.compose.id, nid, got, (cur["date"], cur["type"], cur["respin"])))
        obj.compose.id = nid
    run = has_digit_run(rel["version"]) or has_digit_run(rel["short"]) or (case["layered"] and has_digit_run(case["base_product"]["version"]))
    labels = [case["type"]] + (["layered"] if case["layered"] else []) + (["digit-run"] if run else []) + (["created-again"] if case.get("next") else []) + (["with-variants"] if case.get("variants") else []) + (["rhel5-family"] if case.get("rhel5") else []) + (["labelled"] if case.get("label") else [])
    return {"nontrivial": case["type"] != "production" or case["respin"] > 9 or run or case["layered"], "labels": labels}


decode_strategy = st.fixed_dictionaries({
    "prefix": st.one_of(st.sampled_from(["Foo-1.0", "F-22", "RHEL-7.2-updates-RHEL-7", "x-20200101", "a-1.20200101.5", "Foo-123456789"]),
                        st.builds(lambda s, v: "%s-%s" % (s, v), gen.short_text, gen.version_text)),
    "date": gen.date8,
    "suffix": st.one_of(st.sampled_from(sorted(SUFFIX_TABLE)), st.sampled_from([".x", ".production", ".c", ".foo", ".nn", ".tt", ".dev", ".nightlyx"]),
                        # every spelling derived from a compose type name: the full name, its first letter, prefixes, a plural
                        st.sampled_from(sorted(set(s for t in gen.COMPOSE_TYPES for s in ("." + t, "." + t[0], "." + t[:3], "." + t[:-1], "." + t + "s")))),      # lower case only: anything else is not a suffix at all (free-form id tail)
                        st.from_regex(r"\.[a-z]{1,9}", fullmatch=True)),
    "respin": st.one_of(st.none(), gen.respin),
})


def decode_case(case):
    from productmd.composeinfo import get_date_type_respin
    cid = "%s-%s%s" % (case["prefix"], case["date"], case["suffix"])
    if case["respin"] is not None:
        cid += ".%d" % case["respin"]
    if case["suffix"] in SUFFIX_TABLE:
        got = must("decode", get_date_type_respin, cid)
        want = (case["date"], SUFFIX_TABLE[case["suffix"]], case["respin"] or 0)
        check(got == want, "decode-differs", lambda: "get_date_type_respin(%r) = %r, expected %r" % (cid, got, want))
        return {"nontrivial": True, "labels": ["suffix" + case["suffix"], "no-respin" if case["respin"] is None else "respin"]}
    refuses("unknown-suffix", (ValueError,), get_date_type_respin, cid)
    return {"nontrivial": True, "labels": ["unknown-suffix"]}


legacy_strategy = st.fixed_dictionaries({
    "version": st.sampled_from(["0.0", "0.1", "0.2"]),
    "release": gen.release_desc(with_internal=False), "layered": st.booleans(), "base_product": gen.release_desc(with_internal=False),
    "date": gen.date8, "respin": gen.respin,
    "suffix": st.sampled_from(sorted(SUFFIX_TABLE)), "with_respin": st.booleans(),
    "stored_type": st.sampled_from(gen.COMPOSE_TYPES + ["", "whatever"]),
    "peek": st.booleans(),
})


def legacy_doc(case):
    rel = case["release"]
    prod = {"name": rel["name"], "short": rel["short"], "version": rel["version"]}
    if case["layered"]:
        prod["is_layered"] = True
    bp = case["base_product"]
    cid = "%s-%s" % (rel["short"], rel["version"])
    if case["layered"]:
        cid += "-%s-%s" % (bp["short"], bp["version"])
    cid += "-%s%s" % (case["date"], case["suffix"])
    if case["with_respin"]:
        cid += ".%d" % case["respin"]
    payload = {"compose": {"id": cid, "type": case["stored_type"]}, "product": prod, "variants": {}}
    if case["layered"]:
        payload["base_product"] = {"name": bp["name"], "short": bp["short"], "version": bp["version"]}
    return cid, {"header": {"version": case["version"]}, "payload": payload}


def legacy_case(case):
    from productmd.composeinfo import ComposeInfo
    cid, doc = legacy_doc(case)
    ci = ComposeInfo()
    if case.get("peek"):
        # looking at a fresh object's (current) version before loading into it is harmless
        check(ci.header.version_tuple == (1, 2), "fresh-header-version", "%r" % (ci.header.version_tuple,))
    gen.give_past(ci, gen.past_of(json.dumps(doc)))
    must("load-legacy", ci.loads, json.dumps(doc))
    want = (cid, case["date"], SUFFIX_TABLE[case["suffix"]], case["respin"] if case["with_respin"] else 0)
    got = (ci.compose.id, ci.compose.date, ci.compose.type, ci.compose.respin)
    check(got == want, "legacy-decode-differs", lambda: "legacy %s document with id %r loaded as %r, expected %r" % (case["version"], cid, got, want))
    return {"nontrivial": True, "labels": ["v" + case["version"], "suffix" + case["suffix"]]}


def witness_8digit_respin():
    from productmd.composeinfo import get_date_type_respin
    got = get_date_type_respin("F-22-20160622.t.12345678")
    if got != ("20160622", "test", 12345678):
        return "get_date_type_respin('F-22-20160622.t.12345678') = %r (8-digit respin decoded as the date)" % (got,)
    return None


WITNESSES = {"KF-C15-8digit-respin": witness_8digit_respin}


def cross_product():
    """full cross product of the small enumerations (types x suffixes x layered), fixed texts"""
    for rtype, btype, ctype, layered, respin in itertools.product(gen.RELEASE_TYPES, gen.RELEASE_TYPES, gen.COMPOSE_TYPES,
                                                                  [False, True], [0, 7, 10, 1234567]):
        if not layered and btype != "ga":
            continue
        yield {"release": {"name": "N", "short": "Foo-Bar", "version": "1.20200101", "type": rtype, "internal": False}, "layered": layered,
               "base_product": {"name": "B", "short": "RHEL", "version": "7", "type": btype}, "type": ctype, "date": "20160622", "respin": respin}


def run(ctx):
    ctx.forall("create", create_strategy, create_case, ctx.n(4000, 160000))
    ctx.sweep("create-enumerations", cross_product(), create_case, exhaustive=True)
    ctx.forall("decode", decode_strategy, decode_case, ctx.n(3000, 100000))
    ctx.forall("legacy", legacy_strategy, legacy_case, ctx.n(1500, 50000))
    ctx.sub("create").notes.append("respin drawn from [0, 10^7); [10^7, 10^8) excluded: KF-C15-8digit-respin")


REPLAY = {"create": create_case, "create-enumerations": create_case, "decode": decode_case, "legacy": legacy_case}
