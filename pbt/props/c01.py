"""C01 Composeinfo survives a write/read cycle unchanged."""
import io
import json
import os
import tempfile

from hypothesis import strategies as st

from pbt import gen
from pbt import ci as cim
from pbt.runner import Violation, must, check
from pbt.poison import poison

PROPERTY = "C01"
LEVEL = "exploration"
RULE = ("Hypothesis-generated compose descriptions (release/base product/compose section/variant forest to depth 3 with "
        "all four variant types, dashed top-level UIDs, per-arch path tables incl. foreign arches and empty paths), built "
        "through the public API in a generated construction order, dumped and re-read; oracle = snapshot and JSON "
        "document computed from the description (not from the first object) + byte-identical second dump. "
        "Non-trivial = forest has a child variant or a path table, or a label, base product or non-ga type is present; "
        "distinct = SHA-1 of the canonical description. Every case also reads the file into an object that refused another document first, and revises the written and the loaded object in place (names, a path table replaced by assignment, an architecture gained) before writing again; the second file is compared with the reference document of the revised description.")
ASSUMPTIONS = ["json (stdlib) is a correct JSON reader", "descriptions stay inside the domain of C01's quantifier"]
FLOORS = {"distinct_nontrivial": 150, "roundtrip:depth3": 10, "roundtrip:layered": 20, "roundtrip:dashed-top-uid": 10,
          "roundtrip:dashed-top-uid-with-children": 10}

case_strategy = st.fixed_dictionaries({"desc": cim.compose_desc(), "plan": st.sampled_from([0, 0, 1, 2, 3, 4, 5, 6, 7]),
                                        "via_file": st.integers(0, 5).map(lambda i: i == 0),
                                        "stream": st.sampled_from([None, None, None, "fileobj", "nonseekable"])})


class NonSeekable(io.TextIOBase):
    """a readable text stream that cannot be rewound (pipe, socket, HTTP response)"""
    def __init__(self, text):
        io.TextIOBase.__init__(self)
        self._io = io.StringIO(text)

    def readable(self):
        return True

    def seekable(self):
        return False

    def read(self, n=-1):
        return self._io.read(n)

    def readline(self, n=-1):
        return self._io.readline(n)

    def seek(self, *a, **kw):
        raise io.UnsupportedOperation("seek")

    def tell(self):
        raise io.UnsupportedOperation("tell")


def diff(a, b, path=""):
    """first difference between two JSON-like values, for messages"""
    if type(a) != type(b):
        return "%s: %r != %r" % (path, a, b)
    if isinstance(a, dict):
        for k in sorted(set(a) | set(b), key=repr):
            if k not in a:
                return "%s/%s: missing on the left (right has %r)" % (path, k, b[k])
            if k not in b:
                return "%s/%s: missing on the right (left has %r)" % (path, k, a[k])
            d = diff(a[k], b[k], "%s/%s" % (path, k))
            if d:
                return d
        return None
    if isinstance(a, list):
        if len(a) != len(b):
            return "%s: length %d != %d" % (path, len(a), len(b))
        for i, (x, y) in enumerate(zip(a, b)):
            d = diff(x, y, "%s[%d]" % (path, i))
            if d:
                return d
        return None
    return None if a == b else "%s: %r != %r" % (path, a, b)


REFUSED_DOCUMENT = json.dumps({
    "header": {"type": "productmd.composeinfo", "version": "1.2"},
    "payload": {"compose": {"id": "Other-9-20991231.t.7", "type": "test", "date": "20991231", "respin": 7, "label": "RC-9.9", "final": True},
                "release": {"name": "Other", "short": "Other", "version": "9.x", "type": "eus", "internal": True, "is_layered": True},
                "base_product": {"name": "Base", "short": "Base", "version": "1", "type": "aus"},
                "variants": {"Other": {"id": "Other", "uid": "Other", "name": "Other", "type": "variant", "arches": ["s390x"], "paths": {"os_tree": {"s390x": "x"}}}}}})


def roundtrip(case):
    from productmd.composeinfo import ComposeInfo
    desc = case["desc"]
    obj = must("build", cim.build_ci, desc, case.get("plan", 0))
    tmpdir = None
    try:
        if case.get("via_file"):
            tmpdir = tempfile.mkdtemp(prefix="c01-")
            path = os.path.join(tmpdir, "composeinfo.json")
            must("dump-valid-object", obj.dump, path)
            with open(path) as fo:
                text = fo.read()
            again = gen.give_past(ComposeInfo(), gen.past_of(text))
            must("load", again.load, path)
        elif case.get("stream"):
            # load() documents "file-like object or path": an open stream, possibly one that cannot be rewound
            out = io.StringIO()
            must("dump-to-file-object", obj.dump, out)
            text = out.getvalue()
            check(text == must("dumps-valid-object", obj.dumps), "dump-to-file-object-differs", "dump(file object) and dumps() differ")
            again = ComposeInfo()
            must("load-from-%s" % case["stream"], again.load, io.StringIO(text) if case["stream"] == "fileobj" else NonSeekable(text))
            must("validate-loaded", again.validate)
        else:
            text = must("dumps-valid-object", obj.dumps)
            again = gen.give_past(ComposeInfo(), gen.past_of(text))
            must("loads", again.loads, text)
    finally:
        if tmpdir:
            import shutil
            shutil.rmtree(tmpdir, ignore_errors=True)

    # (2) snapshot of the re-read object == snapshot computed from the description
    want = cim.expected_snapshot(desc)
    got = must("snapshot", cim.snapshot, again)
    d = diff(want, got)
    check(d is None, "reread-differs-from-description", lambda: "expected(description) vs re-read object: %s" % d)
    check(again.header.version == "1.2", "header-version", "header version after load is %r" % again.header.version)

    # lookups on the re-read object: parent/child structure reachable
    for node in cim.all_nodes(desc["variants"]):
        v = must("lookup-by-uid", lambda u=node["uid"]: again[u])
        check(v.uid == node["uid"], "lookup-by-uid-wrong", "ci[%r].uid == %r" % (node["uid"], v.uid))

    # a reader that was first offered a document it refused (a retry loop over candidate files): the refused document is read as
    # far as its compose section, then rejected for its release version - nothing of it shows in what is read afterwards
    used = ComposeInfo()
    try:
        used.loads(REFUSED_DOCUMENT)
    except Exception:  # noqa
        pass
    else:
        raise Violation("harness-refused-document-accepted", "harness: the document meant to be refused was loaded")
    must("loads-after-refused-document", used.loads, text)
    d = diff(want, must("snapshot", cim.snapshot, used))
    check(d is None, "reread-differs-after-refused-document", lambda: "object that refused another document first, then read this one: %s" % d)
    check(must("dumps-after-refused-document", used.dumps) == text, "second-dump-differs-after-refused-document", "an object that refused another document first writes this one differently")

    # (3) second dump byte-identical
    text2 = must("second-dumps", again.dumps)
    check(text2 == text, "second-dump-differs", lambda: "first and second dump differ: %s" % diff(json.loads(text), json.loads(text2)))

    # (4) the document itself says what the description says (catches symmetric writer/reader drops)
    doc = json.loads(text)
    d = diff(cim.expected_doc(desc), doc)
    check(d is None, "document-differs-from-description", lambda: "expected document vs dumps(): %s" % d)
    # the object that was just written is revised (names, a path table replaced, an architecture gained) and written again
    desc2 = must("modify-existing-object", cim.modify_ci, desc, obj)
    text3 = must("dumps-after-change", obj.dumps)
    third = ComposeInfo()
    must("loads-after-change", third.loads, text3)
    d = diff(cim.expected_snapshot(desc2), must("snapshot", cim.snapshot, third))
    check(d is None, "reread-differs-after-change", lambda: "object written, changed in place and written again: expected(changed description) vs re-read object: %s" % d)
    d = diff(cim.expected_doc(desc2), json.loads(text3))
    check(d is None, "document-differs-after-change", lambda: "expected document vs dumps() after an in-place change: %s" % d)
    # ... and so is the object that was READ from the first file
    desc3 = must("modify-loaded-object", cim.modify_ci, cim.as_loaded(desc), again)
    d = diff(cim.expected_doc(desc3), json.loads(must("dumps-loaded-after-change", again.dumps)))
    check(d is None, "document-differs-after-change", lambda: "loaded object changed in place and written: %s" % d)
    poison(obj), poison(again), poison(doc), poison(third)
    return {"nontrivial": cim.is_nontrivial(desc), "labels": cim.labels(desc)}


def casefold(case):
    """documented normalisation: release type is case-folded on load (document-level, the writer never emits upper case)"""
    from productmd.composeinfo import ComposeInfo
    desc = case["desc"]
    obj = must("build", cim.build_ci, desc, 0)
    doc = json.loads(must("dumps-valid-object", obj.dumps))
    how = case["how"]
    fold = {"upper": str.upper, "title": str.title, "swap": str.swapcase}[how]
    doc["payload"]["release"]["type"] = fold(doc["payload"]["release"]["type"])
    for v in doc["payload"]["variants"].values():
        if "release" in v:
            v["release"]["type"] = fold(v["release"]["type"])
    again = ComposeInfo()
    must("loads-casefolded", again.loads, json.dumps(doc))
    d = diff(cim.expected_snapshot(desc), cim.snapshot(again))
    check(d is None, "casefold-differs", lambda: "after loading %s-cased release type: %s" % (how, d))
    text = must("dumps-after-casefold", again.dumps)
    d = diff(cim.expected_doc(desc), json.loads(text))
    check(d is None, "casefold-document-differs", lambda: "%s" % d)
    return {"nontrivial": True, "labels": [how]}


casefold_strategy = st.fixed_dictionaries({"desc": cim.compose_desc(max_top=2, max_depth=2), "how": st.sampled_from(["upper", "title", "swap"])})


def run(ctx):
    ctx.forall("roundtrip", case_strategy, roundtrip, ctx.n(1600, 64000))
    ctx.forall("casefold", casefold_strategy, casefold, ctx.n(300, 8000))


REPLAY = {"roundtrip": roundtrip, "casefold": casefold}
