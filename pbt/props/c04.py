"""C04 Treeinfo and discinfo survive a write/read cycle unchanged."""
import math
import os
import shutil
import tempfile

from hypothesis import strategies as st

from pbt import gen, ti as tim
from pbt.props.c01 import diff
from pbt.runner import must, check
from pbt.poison import poison

PROPERTY = "C04"
LEVEL = "exploration"
RULE = ("Hypothesis-generated trees (release incl. '%', '=', ':' and Unicode in values, layered base product, binary and src "
        "trees, integer timestamps incl. negative, extra platforms, 1-4 top-level variants incl. dashed UIDs stored under "
        "their UID, children of every type to depth 3, any subset of the 7 path kinds, per-platform image tables with "
        "mixed-case option names, stage2, media, checksums) are built through the public API in a generated order, dumped "
        "(with every choice of main variant) and re-read; oracle = snapshot computed from the description, byte-identical "
        "second dump, and the file read by stdlib RawConfigParser must equal the reference INI model section by section. "
        "Discinfo: any finite non-zero float timestamp, single-line description, 'ALL' or disc lists. Non-trivial (tree) = "
        "child variant, >= 2 top-level variants, images+checksums, layered or src tree; (discinfo) timestamp needing > 12 "
        "significant digits or exponent notation, or a disc list; distinct = SHA-1 of the description. The written tree is then changed in place (other arch, later timestamp, one top-level variant replaced by one sorting first) and written again; re-read snapshot and file are compared with the changed description. Integer timestamps of any magnitude and sign; variant objects created for another tree.")
ASSUMPTIONS = ["stdlib configparser.RawConfigParser is a correct, independent INI reader",
               "top-level variants whose UID differs from their id are stored under the UID (KF-C04-toplevel-key-id covers the other case)"]
FLOORS = {"discinfo:quote-at-one-end": 10, "tree": 300, "tree:child-type:variant": 20, "tree:child-type:optional": 20, "tree:child-type:addon": 20, "tree:depth3": 20,
          "tree:dashed-top-uid": 20, "discinfo": 200}

tree_strategy = st.fixed_dictionaries({"desc": tim.tree_desc(), "plan": st.sampled_from([0, 0, 1, 2, 3, 4]), "via_file": st.integers(0, 5).map(lambda i: i == 0),
                                        "use_main": st.booleans()})


def tree_case(case):
    from productmd.treeinfo import TreeInfo
    desc = case["desc"]
    main = desc["main_variant"] if case.get("use_main") else None
    obj = must("build", tim.build_ti, desc, case.get("plan", 0))
    tmpdir = None
    try:
        if case.get("via_file"):
            tmpdir = tempfile.mkdtemp(prefix="c04-")
            path = os.path.join(tmpdir, "treeinfo")
            must("dump-valid-tree", obj.dump, path, main_variant=main)
            with open(path) as fo:
                text = fo.read()
            again = gen.give_past(TreeInfo(), gen.past_of(text))
            must("load", again.load, path)
        else:
            text = must("dumps-valid-tree", tim.dump_text, obj, main)
            again = gen.give_past(TreeInfo(), gen.past_of(text))
            must("loads", again.loads, text)
    finally:
        if tmpdir:
            shutil.rmtree(tmpdir, ignore_errors=True)
    d = diff(tim.expected_snapshot(desc), must("snapshot", tim.snapshot, again))
    check(d is None, "reread-differs-from-description", lambda: "expected(description) vs re-read tree: %s" % d)
    check(again.header.version == "1.2", "header-version", "%r" % again.header.version)
    text2 = must("second-dumps", tim.dump_text, again, main)
    check(text2 == text, "second-dump-differs", lambda: "first and second dump differ: %s" % diff(tim.read_ini(text), tim.read_ini(text2)))
    # independent reading of the file: every fact sits at its documented place
    ini = must("stdlib-read", tim.read_ini, text)
    d = diff(tim.expected_ini(desc, main), ini)
    check(d is None, "file-differs-from-reference-model", lambda: "reference INI model vs file read by RawConfigParser: %s" % d)
    # the tree that was just written is changed (other arch, later timestamp, one top-level variant replaced) and written again
    desc2 = must("modify-existing-tree", tim.modify_ti, desc, obj, case.get("plan", 0))
    main2 = desc2["main_variant"] if case.get("use_main") else None
    text3 = must("dumps-after-change", tim.dump_text, obj, main2)
    third = TreeInfo()
    must("loads-after-change", third.loads, text3)
    d = diff(tim.expected_snapshot(desc2), must("snapshot", tim.snapshot, third))
    check(d is None, "reread-differs-after-change", lambda: "tree written, changed in place and written again: expected(changed description) vs re-read tree: %s" % d)
    d = diff(tim.expected_ini(desc2, main2), must("stdlib-read", tim.read_ini, text3))
    check(d is None, "file-differs-after-change", lambda: "reference INI model vs file after an in-place change: %s" % d)
    poison(obj), poison(again), poison(third)
    return {"nontrivial": tim.is_nontrivial(desc), "labels": tim.labels(desc)}


# ---- discinfo -----------------------------------------------------------------------------------------------------
_float = st.one_of(
    st.floats(allow_nan=False, allow_infinity=False).filter(lambda f: f != 0.0),
    st.sampled_from([1e-7, 1e22, -1.5, 1386857206.123456, 1410862874.59, 0.1 + 0.2, 2.0 ** 53 + 2, 5e-324, 1.7976931348623157e308, 1e16, 123456789012345680.0]),
    st.integers(1, 2 ** 33).map(lambda i: i / 100.0),
)
def _wrapped(s):
    """'wrapped in quotes': the same quote character at both ends"""
    return len(s) >= 2 and s[0] == s[-1] and s[0] in "\"'"


_desc_text = st.one_of(st.sampled_from(["Fedora 20", "Red Hat Enterprise Linux 7.0", "x", "it's", 'say "hi" there', 'Fedora "Rawhide"', "'tis Fedora", 'a"', '"x', "'", '"', "\"a'", "#1 Community Respin 21", "# x", ";x", "[x]", "#", "1.5", "ALL", "x86_64", 'Rock \'n\' Roll "7"']),
                       gen.name_text, st.text(st.sampled_from(list("ab \"'")), min_size=1, max_size=5)).map(
    lambda s: s.strip()).filter(lambda s: len(s) > 0 and not _wrapped(s) and "\n" not in s and "\r" not in s and len(s.splitlines()) == 1)
disc_strategy = st.fixed_dictionaries({
    "timestamp": _float, "description": _desc_text, "arch": st.one_of(gen.arch_pool, st.sampled_from(["src", "x86_64"])),
    "discs": st.one_of(st.just(["ALL"]), st.lists(st.integers(0, 99), min_size=1, max_size=6)),
    "via_file": st.integers(0, 5).map(lambda i: i == 0),
})


def disc_case(case):
    from productmd.discinfo import DiscInfo
    d = DiscInfo()
    d.timestamp, d.description, d.arch, d.disc_numbers = case["timestamp"], case["description"], case["arch"], list(case["discs"])
    tmpdir = None
    try:
        if case.get("via_file"):
            tmpdir = tempfile.mkdtemp(prefix="c04d-")
            path = os.path.join(tmpdir, ".discinfo")
            must("dump-valid-discinfo", d.dump, path)
            with open(path) as fo:
                text = fo.read()
            again = DiscInfo()
            must("load", again.load, path)
        else:
            text = must("dumps-valid-discinfo", d.dumps)
            again = DiscInfo()
            must("loads", again.loads, text)
    finally:
        if tmpdir:
            shutil.rmtree(tmpdir, ignore_errors=True)
    got = (again.timestamp, again.description, again.arch, again.disc_numbers)
    want = (case["timestamp"], case["description"], case["arch"], list(case["discs"]))
    check(got == want and type(again.timestamp) is float, "reread-differs", lambda: "wrote %r, read %r" % (want, got))
    lines = text.split("\n")
    check(len(lines) == 4, "line-count", "discinfo has %d lines" % len(lines))
    check(float(lines[0]) == case["timestamp"] and lines[1] == case["description"] and lines[2] == case["arch"]
          and lines[3] == ("ALL" if case["discs"] == ["ALL"] else ",".join(str(i) for i in case["discs"])), "file-differs",
          lambda: "file lines %r" % (lines,))
    text2 = must("second-dumps", again.dumps)
    check(text2 == text, "second-dump-differs", "first %r second %r" % (text, text2))
    poison(d), poison(again)
    r = repr(case["timestamp"])
    hard = "e" in r or len(r.replace(".", "").replace("-", "").lstrip("0")) > 12
    edge_quote = case["description"][0] in "\"'" or case["description"][-1] in "\"'"
    return {"nontrivial": hard or case["discs"] != ["ALL"] or edge_quote, "labels": (["hard-float"] if hard else []) + (["quote-at-one-end"] if edge_quote else [])}


def witness_toplevel_key_id():
    from productmd.treeinfo import TreeInfo, Variant
    ti = TreeInfo()
    ti.release.name, ti.release.short, ti.release.version = "R", "R", "7"
    ti.tree.arch, ti.tree.build_timestamp = "x86_64", 1
    v = Variant(ti)
    v.id, v.uid, v.name, v.type = "optional", "Server-optional", "optional", "optional"
    ti.variants.add(v)           # default key: the id
    first = ti.dumps()
    again = TreeInfo()
    again.loads(first)
    second = again.dumps()
    if first != second:
        a = [l for l in first.split("\n") if l.startswith("variant")]
        b = [l for l in second.split("\n") if l.startswith("variant")]
        return ("top-level treeinfo variant uid 'Server-optional' stored under its id 'optional': [general] says %r before and %r after a "
                "write/read cycle" % (a, b))
    return None


def witness_platform_arch_suffix():
    import productmd.treeinfo as t
    ti = t.TreeInfo()
    ti.release.name, ti.release.short, ti.release.version = "F", "f", "20"
    ti.tree.arch, ti.tree.build_timestamp = "x86_64", 1
    ti.tree.platforms.add("xen-x86_64")
    v = t.Variant(ti)
    v.id = v.uid = v.name = "S"
    v.type = "variant"
    v.paths.packages, v.paths.repository = "p", "r"
    ti.variants.add(v)
    ti.images.images["xen-x86_64"] = {"kernel": "a/k"}
    text = ti.dumps()
    back = t.TreeInfo()
    try:
        back.loads(text)
    except ValueError as exc:
        return "tree x86_64 with platform 'xen-x86_64' holding an image is written, its own file is refused on read (%s)" % exc
    if sorted(back.images.images) != ["xen-x86_64"]:
        return "tree x86_64 with platform 'xen-x86_64' comes back with image tables %r" % sorted(back.images.images)
    return None


WITNESSES = {"KF-C04-toplevel-key-id": witness_toplevel_key_id, "KF-C04-platform-arch-suffix": witness_platform_arch_suffix}


def run(ctx):
    ctx.forall("tree", tree_strategy, tree_case, ctx.n(1600, 48000))
    ctx.forall("discinfo", disc_strategy, disc_case, ctx.n(1600, 48000))


REPLAY = {"tree": tree_case, "discinfo": disc_case}
