"""C10 Source content is always filed under binary architectures."""
import copy
import json

from hypothesis import strategies as st

from pbt import gen, im as imm, manifests as mf, downconvert as dc
from pbt.props.c01 import diff
from pbt.runner import must, check, refuses

PROPERTY = "C10"
LEVEL = "exploration"
RULE = ("(add) Images.add / Rpms.add with the architecture swept over the whole architecture table plus src, nosrc, unknown "
        "names, '' and wrong-case spellings, on manifests that already hold content: refused with ValueError and table "
        "unchanged iff the arch is not in the table or is src/nosrc; (images) generated images documents of format 1.0/1.1 "
        "where any subset of variants has a 'src' cell next to 1-3 binary arch cells: every source image must appear in each "
        "binary arch cell of its variant and nowhere else, nothing else may move, and neither the object nor the re-dumped "
        "payload may contain a src/nosrc/unknown arch key; (rpms) generated rpms 0.3 documents with a 'src' table per variant "
        "(canonical and legal non-canonical key spellings): every source RPM listed there must be filed as category 'source' "
        "under its canonical NEVRA in each binary arch that lists packages built from it. Expectations are computed from the "
        "description. Non-trivial = document has a variant with 'src' and >= 2 binary arches / add with a refused arch; "
        "distinct = SHA-1 of the case. One parsed document feeds two readers and must stay unmodified; identity-equal source twins with equal checksums are generated.")
ASSUMPTIONS = ["a variant with only a 'src' entry is outside the claim and not generated"]
FLOORS = {"images-doc:one-source-image-in-several-variants": 10, "images-doc": 100, "rpms-doc": 100, "add-arch-sweep": 60}

ARCH_CANDIDATES = sorted(set(gen.RPM_ARCHES) | {"", "SRC", "Src", "X86_64", "x86-64", "x86_64 ", " src", "source", "i387", "none", "NOSRC", "noarch "}
                         | set(a + "\n" for a in gen.RPM_ARCHES) | {"src\n\n", "\nsrc", "src\r", "x86_64\t", "x86_64\x00"})      # a name followed by a line break is another string


def add_case(arch):
    from productmd.images import Images
    from productmd.rpms import Rpms
    ok = arch in gen.RPM_ARCHES and arch not in ("src", "nosrc")
    rec = {"path": "Server/iso/boot.iso", "mtime": 1, "size": 2, "volume_id": None, "type": "boot", "format": "iso", "arch": "src",
           "disc_number": 1, "disc_count": 1, "checksums": {"sha256": "aa"}, "implant_md5": None, "bootable": False,
           "subvariant": "Server", "unified": False, "additional_variants": []}
    for version in ("0.0", "1.0", "1.2"):
        im = Images()
        im.header.version = version
        first = imm.make_image(im, dict(rec, path="first.iso", subvariant="other"))
        must("images-add-x86_64", im.add, "Server", "x86_64", first)
        before = imm.snap_cells(im)
        img = imm.make_image(im, rec)
        if ok:
            must("images-add-binary-arch", im.add, "Server", arch, img)
            check(arch in im.images["Server"] and img in im.images["Server"][arch], "images-add-misfiled", "image not under arch %r" % arch)
        else:
            refuses("images-add-source-or-unknown-arch", (ValueError,), im.add, "Server", arch, img)
            check(imm.snap_cells(im) == before and set(im.images["Server"]) == {"x86_64"}, "refused-add-changed-manifest",
                  "Images.images changed by a refused add under %r" % arch)
    r = Rpms()
    must("rpms-add-x86_64", r.add, "Server", "x86_64", "glibc-0:2.18-11.fc20.x86_64", "p/glibc.rpm", None, "binary", "glibc-0:2.18-11.fc20.src")
    before = copy.deepcopy(r.rpms)
    for nevra, category, srpm in (("glibc-0:2.18-11.fc20.src", "source", None), ("glibc-devel-0:2.18-11.fc20.x86_64", "binary", "glibc-0:2.18-11.fc20.src")):
        args = ["Server", arch, nevra, "p/x.rpm", None, category] + ([srpm] if srpm else [])
        if ok:
            must("rpms-add-binary-arch", r.add, *args)
            check(arch in r.rpms["Server"], "rpms-add-misfiled", "nothing filed under arch %r" % arch)
        else:
            refuses("rpms-add-source-or-unknown-arch", (ValueError,), r.add, *args)
            check(r.rpms == before, "refused-add-changed-manifest", "Rpms.rpms changed by a refused add under %r" % arch)
    return {"nontrivial": True, "labels": ["accepted" if ok else "refused"]}


def bad_keys(mapping):
    return sorted(set(a for v in mapping.values() for a in v if a in ("src", "nosrc") or a not in gen.RPM_ARCHES))


def images_case(desc):
    from productmd.images import Images
    doc = dc.legacy_images_doc(desc)
    im = Images()
    must("load-legacy-images", im.loads, json.dumps(doc))
    check(not bad_keys(im.images), "source-arch-key-in-object", lambda: "Images.images has arch keys %r" % bad_keys(im.images))
    want = dc.legacy_images_expected_cells(desc)
    got = {k: v for k, v in imm.snap_cells(im).items() if v}
    check(want == got, "refiling-differs", lambda: "cells after load: missing %r, unexpected %r, changed %r" % (
        sorted(set(want) - set(got)), sorted(set(got) - set(want)), [k for k in want if k in got and want[k] != got[k]][:2]))
    # one already parsed document feeding two objects: the document stays the caller's, the second reader sees what the first saw
    parsed = json.loads(json.dumps(doc))
    before = copy.deepcopy(parsed)
    for n in (1, 2):
        reader = Images()
        must("deserialize-parsed-document", reader.deserialize, parsed)
        check(parsed == before, "caller-document-modified", lambda: "the parsed document handed to deserialize() was modified: %s" % diff(before, parsed))
        got_n = {k: v for k, v in imm.snap_cells(reader).items() if v}
        check(got_n == want, "refiling-differs", lambda: "reader #%d of the same parsed document: cells differ from the description" % n)
    text = must("dumps-after-upgrade", im.dumps)
    payload = json.loads(text)["payload"]["images"]
    check(not bad_keys(payload), "source-arch-key-in-dump", lambda: "dumped payload has arch keys %r" % bad_keys(payload))
    got_doc = {(v, a): sorted(imm.rec_tuple(dict({"unified": False, "additional_variants": []}, **r)) for r in payload[v][a])
               for v in payload for a in payload[v] if payload[v][a]}
    check(got_doc == want, "dumped-refiling-differs", "dumped payload does not hold every source image under each binary arch of its variant")
    multi = any(lay["has_src"] and len(lay["binary"]) >= 2 for lay in desc["layout"].values())
    return {"nontrivial": multi, "labels": ["v" + desc["version"]] + (["src+>=2-binary"] if multi else [])
            + (["src"] if any(lay["has_src"] for lay in desc["layout"].values()) else [])
            + (["one-source-image-in-several-variants"] if any(e.get("shared") for e in desc["entries"]) else [])}


def rpms_case(desc):
    from productmd.rpms import Rpms
    doc = dc.legacy_rpms_doc(desc)
    r = Rpms()
    must("load-rpms-0.3", r.loads, json.dumps(doc))
    check(not bad_keys(r.rpms), "source-arch-key-in-object", lambda: "Rpms.rpms has arch keys %r" % bad_keys(r.rpms))
    want = dc.legacy_rpms_expected(desc)
    d = diff(want, r.rpms)
    check(d is None, "refiling-differs", lambda: "expected(description) vs Rpms.rpms after load: %s" % d)
    parsed = json.loads(json.dumps(doc))
    before = copy.deepcopy(parsed)
    for n in (1, 2):
        reader = Rpms()
        must("deserialize-parsed-document", reader.deserialize, parsed)
        check(parsed == before, "caller-document-modified", lambda: "the parsed document handed to deserialize() was modified: %s" % diff(before, parsed))
        d = diff(want, reader.rpms)
        check(d is None, "refiling-differs", lambda: "reader #%d of the same parsed document: %s" % (n, d))
    # a reader with a past: it has filed a package of its own under the document's first cell, or has read the document before -
    # an rpms reader starts from the document it is given, so the result is the same
    cells = sorted((v, a) for v in want for a in want[v])
    for past in ("added-before", "loaded-before"):
        reader = Rpms()
        if past == "added-before" and cells:
            v, a = cells[0]
            must("add-before-load", reader.add, v, a, "zz-early-0:1-1.%s" % a, "early/zz.rpm", None, "binary", "zz-early-0:1-1.src")
        else:
            must("load-rpms-0.3", reader.loads, json.dumps(doc))
        must("load-rpms-0.3-into-used-reader", reader.loads, json.dumps(doc))
        d = diff(want, reader.rpms)
        check(d is None, "refiling-differs", lambda: "reader with a past (%s): %s" % (past, d))
        d = diff(want, json.loads(must("dumps-after-upgrade", reader.dumps))["payload"]["rpms"])
        check(d is None, "dumped-refiling-differs", lambda: "reader with a past (%s): %s" % (past, d))
    text = must("dumps-after-upgrade", r.dumps)
    payload = json.loads(text)["payload"]
    check("manifest" not in payload, "legacy-table-in-dump", "dump still has a 'manifest' table")
    check(not bad_keys(payload["rpms"]), "source-arch-key-in-dump", lambda: "dumped payload has arch keys %r" % bad_keys(payload["rpms"]))
    d = diff(want, payload["rpms"])
    check(d is None, "dumped-refiling-differs", lambda: "%s" % d)
    multi = any(vt["has_src"] and vt["src"] and len(vt["binary"]) >= 2 for vt in desc["table"].values())
    shared = len(set(fi for vt in desc["table"].values() for fi in vt["src"])) < sum(len(vt["src"]) for vt in desc["table"].values())
    return {"nontrivial": multi, "labels": ["style:" + desc["style"]] + (["src+>=2-binary"] if multi else []) + (["same-srpm-in-several-variants"] if shared else [])}


def run(ctx):
    ctx.sweep("add-arch-sweep", ARCH_CANDIDATES, add_case, exhaustive=True)
    ctx.forall("images-doc", dc.legacy_images_desc(), images_case, ctx.n(800, 32000))
    ctx.forall("rpms-doc", dc.legacy_rpms_desc(), rpms_case, ctx.n(800, 32000))


REPLAY = {"add-arch-sweep": add_case, "images-doc": images_case, "rpms-doc": rpms_case}
