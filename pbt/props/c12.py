"""C12 Manifest builders file each entry exactly where the arguments say (model-based, operation sequences)."""
import copy
import io
import json

from hypothesis import strategies as st

from pbt import gen, manifests as mf
from pbt.props.c01 import diff
from pbt.runner import must, check, refuses

PROPERTY = "C12"
LEVEL = "exploration"
RULE = ("Generated sequences of add calls (<= 20 steps) on Rpms, Modules and ExtraFiles with every parameter drawn from valid "
        "and invalid values (package families with binary/debug/source members, '.rpm' suffixes and directory prefixes, "
        "missing epoch, unparsable names, absolute/empty paths, unknown/source arches, bad categories, SRPM argument "
        "missing/superfluous/unparsable, category/arch mismatch, mixed-case signing keys; module UIDs with 1-5 parts, empty "
        "parts, prefixes, non-strings, the SAME caller-owned RPM list passed to several calls; extra-file checksums of wrong "
        "type). A hand-written reference model of the documented layout predicts accept/refuse and the whole public mapping, "
        "compared by deep equality after EVERY step; refusals must be ValueError/TypeError and change nothing. "
        "dump_for_tree is compared with component-boundary stripping for base paths that are, are not, or only textually "
        "prefix the stored paths. Non-trivial = history with >= 1 refusal after >= 1 accepted add and >= 2 distinct cells; "
        "distinct = SHA-1 of the sequence.")
ASSUMPTIONS = ["Rpms.add with an empty path or a non-src SRPM argument is not specified and therefore not generated"]
FLOORS = {"rpms": 100, "modules": 100, "extra-files": 100, "dump-for-tree": 100}


def _stats(refused, accepted_before_refusal, cells, ops):
    labels = ["refusal"] if refused else []
    labels += sorted(set("break:%s" % o["break"] for o in ops if o.get("break"))) + (["forgot-a-variant-or-arch"] if any(o.get("forget") for o in ops) else [])
    return {"nontrivial": bool(refused and accepted_before_refusal and len(cells) >= 2), "labels": labels}


def rpms_case(case):
    from productmd.rpms import Rpms
    rpms = Rpms()
    model = {}
    refused = accepted = after = 0
    cells = set()
    for step, op in enumerate(case["ops"]):
        if mf.forget(rpms, rpms.rpms, model, op):
            continue
        trial = copy.deepcopy(model)
        if mf.rpm_model_apply(trial, op):
            must("add-valid", mf.rpm_call, rpms, op)
            model = trial
            accepted += 1
            cells.add((op["variant"], op["arch"]))
        else:
            refuses("add-invalid[%s]" % op.get("break"), (ValueError, TypeError), mf.rpm_call, rpms, op)
            refuses("add-invalid-retried[%s]" % op.get("break"), (ValueError, TypeError), mf.rpm_call, rpms, op)      # asked again, refused again
            refused += 1
            after += 1 if accepted else 0
        d = diff(model, rpms.rpms)
        check(d is None, "mapping-differs-from-model", lambda: "after step %d %s: model vs Rpms.rpms: %s" % (
            step, "(accepted)" if model is trial else "(refused, break=%s)" % op.get("break"), d))
    return _stats(refused, after, cells, case["ops"])


def modules_case(case):
    from productmd.modules import Modules
    mods = Modules()
    caller = mf.ModuleCaller(case["lists"])
    model = {}
    refused = accepted = after = 0
    cells = set()
    for step, op in enumerate(case["ops"]):
        if mf.forget(mods, mods.modules, model, op):
            continue
        trial = copy.deepcopy(model)
        if mf.module_model_apply(trial, op, case["lists"]):
            must("add-valid", caller.call, mods, op)
            model = trial
            accepted += 1
            cells.add((op["variant"], op["arch"]))
        else:
            refuses("add-invalid[%s]" % op.get("break"), (ValueError, TypeError), caller.call, mods, op)
            refuses("add-invalid-retried[%s]" % op.get("break"), (ValueError, TypeError), caller.call, mods, op)      # asked again, refused again
            refused += 1
            after += 1 if accepted else 0
        d = diff(model, mods.modules)
        check(d is None, "mapping-differs-from-model", lambda: "after step %d %s: model vs Modules.modules: %s" % (
            step, "(accepted)" if model is trial else "(refused, break=%s)" % op.get("break"), d))
        check(caller.untouched(), "caller-list-modified", "after step %d the caller's own RPM list was modified by the library" % step)
    return _stats(refused, after, cells, case["ops"])


def extra_case(case):
    from productmd.extra_files import ExtraFiles
    ef = ExtraFiles()
    model = {}
    refused = accepted = after = 0
    cells = set()
    for step, op in enumerate(case["ops"]):
        if mf.forget(ef, ef.extra_files, model, op):
            continue
        trial = copy.deepcopy(model)
        if mf.extra_model_apply(trial, op):
            must("add-valid", mf.extra_call, ef, op)
            model = trial
            accepted += 1
            cells.add((op["variant"], op["arch"]))
        else:
            refuses("add-invalid[%s]" % op.get("break"), (ValueError, TypeError), mf.extra_call, ef, op)
            refuses("add-invalid-retried[%s]" % op.get("break"), (ValueError, TypeError), mf.extra_call, ef, op)      # asked again, refused again
            refused += 1
            after += 1 if accepted else 0
        d = diff(model, ef.extra_files)
        check(d is None, "mapping-differs-from-model", lambda: "after step %d: model vs ExtraFiles.extra_files: %s" % (step, d))
    return _stats(refused, after, cells, case["ops"])


_base = st.one_of(
    st.sampled_from(["Server/x86_64/os", "Server/x86_64/os/", "Server/x86_64/o", "Server/x86_64", "Server", "Serve", "", "/", "GPL",
                     "Server/x86_64/os//", "Server/x86_64/osx", "os", "x86_64/os"]),
    gen.rel_path, gen.rel_path.map(lambda p: p + "/"), gen.rel_path.map(lambda p: p[:-1] if len(p) > 1 else p),
)
tree_strategy = st.fixed_dictionaries({"hist": mf.extra_history(allow_breaks=False), "cell": st.integers(0, 8),
                                        "base": _base, "base_from_entry": st.integers(0, 40)})


def tree_case(case):
    from productmd.extra_files import ExtraFiles
    ef = ExtraFiles()
    model = {}
    for op in case["hist"]["ops"]:
        if mf.extra_model_apply(model, op):
            must("add-valid", mf.extra_call, ef, op)
    cells = sorted((v, a) for v in model for a in model[v])
    variant, arch = cells[case["cell"] % len(cells)]
    entries = model[variant][arch]
    base = case["base"]
    k = case["base_from_entry"]
    if k < 3 * len(entries):
        # derive the base path from a stored path: its directory, a textual (non-boundary) prefix of it, or itself
        path = entries[k % len(entries)]["file"]
        mode = k // len(entries)
        if mode == 0 and "/" in path:
            base = path.rsplit("/", 1)[0]
        elif mode == 1 and len(path) > 1:
            base = path[:-1]
        else:
            base = path
    before = copy.deepcopy(ef.extra_files)
    out = io.StringIO()
    must("dump_for_tree", ef.dump_for_tree, out, variant, arch, base)
    doc = json.loads(out.getvalue())
    want = {"header": {"version": "1.0"},
            "data": [{"file": mf.ref_relative_to(e["file"], base), "size": e["size"], "checksums": e["checksums"]} for e in entries]}
    d = diff(want, doc)
    check(d is None, "tree-dump-differs", lambda: "dump_for_tree(base=%r): %s" % (base, d))
    check(ef.extra_files == before, "tree-dump-modified-manifest", "dump_for_tree changed the manifest")
    stripped = sum(1 for e, w in zip(entries, want["data"]) if e["file"] != w["file"])
    textual = sum(1 for e in entries if e["file"].startswith(base.rstrip("/")) and base.rstrip("/") and mf.ref_relative_to(e["file"], base) == e["file"])
    labels = (["stripped"] if stripped else []) + (["textual-prefix-only"] if textual else []) + (["trailing-slash"] if base.endswith("/") else [])
    return {"nontrivial": bool(stripped or textual), "labels": labels}


def run(ctx):
    ctx.forall("rpms", mf.with_forgets(mf.rpm_history()), rpms_case, ctx.n(1200, 48000))
    ctx.forall("modules", mf.with_forgets(mf.module_history()), modules_case, ctx.n(1200, 48000))
    ctx.forall("extra-files", mf.with_forgets(mf.extra_history()), extra_case, ctx.n(800, 32000))
    ctx.forall("dump-for-tree", tree_strategy, tree_case, ctx.n(1200, 48000))


REPLAY = {"rpms": rpms_case, "modules": modules_case, "extra-files": extra_case, "dump-for-tree": tree_case}
