"""C11 The variant forest stays consistent and every variant is findable (model-based, operation sequences)."""
from hypothesis import strategies as st

from pbt import gen, ci as cim
from pbt.runner import must, check, refuses, Violation

PROPERTY = "C11"
LEVEL = "exploration"
RULE = ("Generated operation sequences (<= 30 steps) on a ComposeInfo and a reference forest: valid top-level adds (incl. the "
        "dashed-UID childless form), valid child adds to depth 3 with arch subsets, refused adds (duplicate id, foreign arch "
        "- also as FIRST child -, misaligned UID, the container itself, one of its ancestors, a variant living elsewhere in "
        "the forest, malformed id, blank name, unknown type, empty arches), dumps->loads round trips, and get_variants "
        "queries on the root or any variant with arch in pool+{src, unknown, None}, any subset of types (+'self' on a "
        "variant), recursive or not. After every step: refused adds raised ValueError and left every container's keys, "
        "object identities and parent links unchanged; child uid = parent uid-id; child arches within parent's; UIDs "
        "unique; ci[uid] and parent[id] return the node; queries have no duplicates, are sorted by UID, every element "
        "satisfies arch and type filter, and with no filter (or arch 'src') return exactly the level / whole forest. "
        "Non-trivial = history with a refused add, a depth-3 variant and a filtered recursive query; distinct = SHA-1 of "
        "the sequence. A 'recover' operation has a nested variant refuse an incomplete variant (TypeError/ValueError), completes it and adds it validly at the top level. Forests also go on as deepcopy / pickle copies of themselves (nothing in the copy refers to the original); the compose itself is a frequent query receiver and an arch filter alone must lose nothing.")
ASSUMPTIONS = ["the element returned for the pseudo-type 'self' is the receiver itself; it is subject to the arch filter like everything else that is returned",
               "an already attached child variant is never re-added to the top-level container (not one of the refusals the statement lists)"]
FLOORS = {"history": 100, "history:refused:foreign-arch-first-child": 30, "history:refused:ancestor": 30, "history:depth3": 150,
          "history:dashed-top": 100, "history:roundtrip": 200}

IDS = ["Server", "Client", "optional", "HA", "Tools", "A", "B", "Z"]
ARCHES = ["x86_64", "i386", "ppc64le", "aarch64", "ppc64", "s390x", "s390"]      # some names are contained in others

_arches = st.lists(st.sampled_from(ARCHES), min_size=1, max_size=4, unique=True)
_sel = st.lists(st.integers(0, 7), min_size=1, max_size=3)
_type = st.sampled_from(gen.CI_VARIANT_TYPES)

op_strategy = st.one_of(
    st.fixed_dictionaries({"op": st.just("top"), "id": st.sampled_from(IDS), "type": _type, "arches": _arches}),
    st.fixed_dictionaries({"op": st.just("dashed"), "parts": st.lists(st.sampled_from(["Server", "Tools", "A", "optional", "Z"]), min_size=2, max_size=3),
                           "type": _type, "arches": _arches}),
    st.fixed_dictionaries({"op": st.just("child"), "parent": st.integers(0, 30), "id": st.sampled_from(IDS), "type": _type, "sel": _sel}),
    st.fixed_dictionaries({"op": st.just("child"), "parent": st.integers(0, 30), "id": st.sampled_from(IDS), "type": _type, "sel": _sel}),
    st.fixed_dictionaries({"op": st.just("child"), "parent": st.integers(0, 30), "id": st.sampled_from(IDS), "type": _type, "sel": _sel}),
    st.fixed_dictionaries({"op": st.just("bad"), "kind": st.sampled_from(["dup-id", "foreign-arch", "foreign-arch", "misaligned-uid", "ancestor", "ancestor", "self",
                                                                            "elsewhere", "malformed-id", "blank-name", "unknown-type", "empty-arches", "top-misaligned",
                                                                            "recover", "recover", "dup-dashed-id", "dup-dashed-id", "dup-uid-top", "dup-uid-top", "child-again-at-top", "again-under-another-key", "again-under-another-key", "subtree", "subtree", "subtree"]),
                           "target": st.integers(0, 30), "other": st.integers(0, 30), "id": st.sampled_from(IDS)}),
    st.just({"op": "roundtrip"}),
    st.sampled_from([{"op": "roundtrip", "via": "deepcopy"}, {"op": "roundtrip", "via": "pickle"}]),      # the forest goes on as a copy of itself
    st.fixed_dictionaries({"op": st.just("query"), "on": st.integers(-1, 30), "arch": st.sampled_from(ARCHES + ["src", "src", "nope", None, None]),
                           "types": gen.subsets(gen.CI_VARIANT_TYPES + ["self"], max_size=3), "recursive": st.booleans()}),
    st.fixed_dictionaries({"op": st.just("query"), "on": st.integers(-1, 30), "arch": st.sampled_from(ARCHES + ["src", None]),
                           "types": gen.subsets(gen.CI_VARIANT_TYPES + ["self"], max_size=3), "recursive": st.just(True)}),
    # asked of the compose itself (the entry point most callers use), mostly without a type filter
    st.fixed_dictionaries({"op": st.just("query"), "on": st.just(-1), "arch": st.sampled_from(ARCHES + ["src", None, None]),
                           "types": st.one_of(st.just([]), st.just([]), gen.subsets(gen.CI_VARIANT_TYPES, max_size=3)), "recursive": st.booleans()}),
)
_child = st.fixed_dictionaries({"op": st.just("child"), "parent": st.integers(0, 30), "id": st.sampled_from(IDS), "type": _type, "sel": _sel,
                                "deep": st.booleans()})
_top = st.fixed_dictionaries({"op": st.just("top"), "id": st.sampled_from(IDS), "type": _type, "arches": st.lists(st.sampled_from(ARCHES), min_size=2, max_size=4, unique=True)})
# every history starts by growing a small forest, then mixes all operations
_prefix = st.tuples(_top, _child, _child, st.one_of(_top, _child)).map(list)
history_strategy = st.fixed_dictionaries({"ops": st.builds(lambda a, b: a + b, _prefix, st.lists(op_strategy, min_size=4, max_size=26))})


class Forest(object):
    """reference model: uid -> node"""
    def __init__(self):
        self.nodes = {}

    def depth(self, uid):
        d = 1
        while self.nodes[uid]["parent"] is not None:
            uid = self.nodes[uid]["parent"]
            d += 1
        return d

    def top_ids(self):
        return set(n["id"] for n in self.nodes.values() if n["parent"] is None)

    def children(self, uid):
        return [n for n in self.nodes.values() if n["parent"] == uid]

    def subtree(self, uid):
        out = []
        for k in self.children(uid):
            out.append(k["uid"])
            out.extend(self.subtree(k["uid"]))
        return out

    def ancestors(self, uid):
        out = []
        while self.nodes[uid]["parent"] is not None:
            uid = self.nodes[uid]["parent"]
            out.append(uid)
        return out


def new_variant(ci, vid, uid, vtype, arches, name="n"):
    from productmd.composeinfo import Variant
    v = Variant(ci)
    v.id, v.uid, v.name, v.type, v.arches = vid, uid, name, vtype, set(arches)
    if vtype == "layered-product":
        v.release.name, v.release.short, v.release.version, v.release.type = "L", "l", "1", "ga"
    return v


def structure(ci):
    """keys, object identities and parent links of every container (for 'refused add changes nothing')"""
    out = []

    def walk(container, label):
        for key in sorted(container.variants):
            v = container.variants[key]
            out.append((label, key, id(v), v.uid, id(v.parent) if v.parent is not None else None, tuple(sorted(v.arches))))
            walk(v, v.uid)
    walk(ci.variants, None)
    return out


def collect(ci):
    objs = {}

    def walk(container):
        for v in container.variants.values():
            objs[v.uid] = v
            walk(v)
    walk(ci.variants)
    return objs


def check_invariants(ci, forest, step):
    objs = {}

    def walk(container, parent):
        for key, v in container.variants.items():
            check(v.uid not in objs, "duplicate-uid", "step %d: UID %r occurs twice in the forest" % (step, v.uid))
            objs[v.uid] = v
            if parent is not None:
                check(v.uid == "%s-%s" % (parent.uid, v.id), "child-uid-misaligned", "step %d: %r under %r with id %r" % (step, v.uid, parent.uid, v.id))
                check(set(v.arches) <= set(parent.arches), "child-arch-outside-parent", "step %d: %r arches %r, parent %r" % (step, v.uid, sorted(v.arches), sorted(parent.arches)))
                check(v.parent is parent, "parent-link", "step %d: %r.parent is not its container" % (step, v.uid))
                check(key == v.id, "child-key", "step %d: child %r stored under %r" % (step, v.uid, key))
                got = must("lookup-by-id", lambda: parent[v.id])
                check(got is v, "lookup-from-parent", "step %d: parent[%r] is not %r" % (step, v.id, v.uid))
            else:
                check(v.parent is None, "parent-link", "step %d: top-level %r has a parent" % (step, v.uid))
                got = must("lookup-top-level-by-id", lambda: ci[v.id])
                check(got is v, "lookup-top-level-by-id", "step %d: ci[%r] (id of top-level %r) is not that variant" % (step, v.id, v.uid))
            walk(v, v)
    walk(ci.variants, None)
    check(set(objs) == set(forest.nodes), "forest-differs-from-model", lambda: "step %d: forest %r vs model %r" % (step, sorted(objs), sorted(forest.nodes)))
    for uid, v in objs.items():
        node = forest.nodes[uid]
        check((v.id, v.type, sorted(v.arches), v.parent.uid if v.parent else None) == (node["id"], node["type"], sorted(node["arches"]), node["parent"]),
              "node-differs-from-model", lambda: "step %d: %r" % (step, uid))
        got = must("lookup-by-uid", lambda: ci[uid])
        check(got is v, "lookup-from-top", lambda: "step %d: ci[%r] returned %r" % (step, uid, getattr(got, "uid", got)))
    return objs


def history_case(case):
    from productmd.composeinfo import ComposeInfo
    ci = ComposeInfo()
    cim.fill_release(ci.release, {"name": "Fedora", "short": "F", "version": "22", "type": "ga"})
    ci.compose.id, ci.compose.type, ci.compose.date, ci.compose.respin = "F-22-20150522.0", "production", "20150522", 0
    forest = Forest()
    objs = {}
    labels = set()
    filtered_recursive_query = False
    for step, op in enumerate(case["ops"]):
        uids = sorted(forest.nodes)
        kind = op["op"]
        if kind == "top":
            if op["id"] in forest.top_ids() or op["id"] in forest.nodes:
                before = structure(ci)
                refuses("add-duplicate-top-id", (ValueError,), ci.variants.add, new_variant(ci, op["id"], op["id"], op["type"], op["arches"]))
                check(structure(ci) == before, "refused-add-changed-forest", "step %d" % step)
                labels.add("refused:dup-id")
            else:
                must("add-top", ci.variants.add, new_variant(ci, op["id"], op["id"], op["type"], op["arches"]))
                forest.nodes[op["id"]] = {"id": op["id"], "uid": op["id"], "type": op["type"], "arches": op["arches"], "parent": None}
        elif kind == "dashed":
            uid, vid = "-".join(op["parts"]), "".join(op["parts"])
            # 'Server-Tools' may live next to 'Server' (the documented Server-optional case) as long as no UID or id repeats
            if uid in forest.nodes or vid in forest.top_ids() or vid in forest.nodes:
                continue
            must("add-dashed-top", ci.variants.add, new_variant(ci, vid, uid, op["type"], op["arches"]))
            forest.nodes[uid] = {"id": vid, "uid": uid, "type": op["type"], "arches": op["arches"], "parent": None, "dashed": True}
            labels.add("dashed-top")
        elif kind == "child":
            cands = [u for u in uids if forest.depth(u) < 3 and not forest.nodes[u].get("dashed")]
            if not cands:
                continue
            if op.get("deep"):
                deepest = max(forest.depth(u) for u in cands)
                cands = [u for u in cands if forest.depth(u) == deepest]
            puid = cands[op["parent"] % len(cands)]
            parent = forest.nodes[puid]
            uid = "%s-%s" % (puid, op["id"])
            arches = sorted(set(parent["arches"][i % len(parent["arches"])] for i in op["sel"]))
            child = new_variant(ci, op["id"], uid, op["type"], arches)
            if op["id"] in [k["id"] for k in forest.children(puid)]:
                before = structure(ci)
                refuses("add-duplicate-child-id", (ValueError,), objs[puid].add, child)
                check(structure(ci) == before, "refused-add-changed-forest", "step %d" % step)
                labels.add("refused:dup-id")
            elif uid in forest.nodes:
                continue        # would duplicate the UID of a dashed top-level variant: not a listed refusal, not generated
            else:
                must("add-child", objs[puid].add, child)
                forest.nodes[uid] = {"id": op["id"], "uid": uid, "type": op["type"], "arches": arches, "parent": puid}
                if forest.depth(uid) == 3:
                    labels.add("depth3")
        elif kind == "bad":
            if not uids:
                continue
            bad = op["kind"]
            pool = uids
            if bad == "ancestor":
                pool = [u for u in uids if forest.nodes[u]["parent"] is not None] or uids
            elif bad == "foreign-arch" and op["other"] % 3 == 0:
                pool = [u for u in uids if not forest.children(u) and forest.depth(u) < 3] or uids
            tuid = pool[op["target"] % len(pool)]
            target = forest.nodes[tuid]
            free_id = op["id"] if op["id"] not in [k["id"] for k in forest.children(tuid)] else "Fresh9"
            before = structure(ci)
            if bad == "dup-id":
                kids = forest.children(tuid)
                if not kids:
                    continue
                k = kids[op["other"] % len(kids)]
                refuses("add-duplicate-child-id", (ValueError,), objs[tuid].add, new_variant(ci, k["id"], k["uid"], "variant", k["arches"]))
            elif bad == "foreign-arch":
                foreign = [a for a in ARCHES + ["s390x", "src", "src"] if a not in target["arches"]]      # the pseudo-arch every variant MATCHES is not an arch every variant HAS
                arches = [foreign[op["other"] % len(foreign)]] + ([target["arches"][0]] if op["other"] % 2 else [])
                first = not forest.children(tuid)
                refuses("add-foreign-arch" + ("-first-child" if first else ""), (ValueError,), objs[tuid].add,
                        new_variant(ci, free_id, "%s-%s" % (tuid, free_id), "variant", arches))
                labels.add("refused:foreign-arch-first-child" if first else "refused:foreign-arch")
            elif bad == "misaligned-uid":
                wrong = [free_id, "X-%s" % free_id, "%s-%s-x" % (tuid, free_id), "%s%s" % (tuid, free_id)][op["other"] % 4]
                refuses("add-misaligned-uid", (ValueError,), objs[tuid].add, new_variant(ci, free_id, wrong, "variant", target["arches"]))
            elif bad == "top-misaligned":
                refuses("add-misaligned-top-uid", (ValueError,), ci.variants.add, new_variant(ci, "Q1", "Q2", "variant", ["x86_64"]))
            elif bad == "ancestor":
                anc = forest.ancestors(tuid)
                if not anc:
                    continue
                refuses("add-own-ancestor", (ValueError,), objs[tuid].add, objs[anc[op["other"] % len(anc)]])
                labels.add("refused:ancestor")
            elif bad == "self":
                refuses("add-itself", (ValueError,), objs[tuid].add, objs[tuid])
                labels.add("refused:self")
            elif bad == "elsewhere":
                others = [u for u in uids if u != tuid and forest.nodes[u]["parent"] != tuid and u not in forest.ancestors(tuid)]
                if not others:
                    continue
                refuses("add-variant-living-elsewhere", (ValueError,), objs[tuid].add, objs[others[op["other"] % len(others)]])
                labels.add("refused:elsewhere")
            elif bad == "dup-uid-top":
                # a top-level variant that spells the UID of a NESTED variant (id = that UID without its dashes): UIDs are unique
                nested = sorted(u for u in uids if forest.nodes[u]["parent"] is not None and u.replace("-", "") not in [n["id"] for n in forest.nodes.values()])
                if not nested:
                    continue
                dup = nested[op["other"] % len(nested)]
                refuses("add-duplicate-uid", (ValueError,), ci.variants.add, new_variant(ci, dup.replace("-", ""), dup, "variant", ["x86_64"]))
                labels.add("refused:duplicate-uid")
            elif bad == "child-again-at-top":
                # a variant that already is somebody's child offered to the compose itself
                nested = sorted(u for u in uids if forest.nodes[u]["parent"] is not None)
                if not nested:
                    continue
                refuses("add-child-again-at-top", (ValueError,), ci.variants.add, objs[nested[op["other"] % len(nested)]])
                labels.add("refused:child-again-at-top")
            elif bad == "again-under-another-key":
                # a top-level variant that is already there offered once more under another key (its UID, as the reader does, or any name)
                tops = sorted(u for u in uids if forest.nodes[u]["parent"] is None)
                if not tops:
                    continue
                t = tops[op["other"] % len(tops)]
                have = [k for k, v in ci.variants.variants.items() if v is objs[t]]
                key = [k for k in (t, forest.nodes[t]["id"], "Other") if k not in have][0]
                refuses("add-again-under-another-key", (ValueError,), ci.variants.add, objs[t], key)
                labels.add("refused:again-under-another-key")
            elif bad == "subtree":
                # a subtree put together while its root is still detached (bottom-up), then offered to the compose as a whole.  With
                # a dashed top-level variant spelling the UID of one of its members (at depth 1 or 2) it has to be refused as a whole;
                # without one it is accepted and every member is findable
                r, c, g = "Zr%d" % step, "Zc", "Zg"
                chain = [r, "%s-%s" % (r, c), "%s-%s-%s" % (r, c, g)]
                collide = [None, 1, 2][op["other"] % 3]
                grand = new_variant(ci, g, chain[2], "addon", ["x86_64"])
                child = new_variant(ci, c, chain[1], "variant", ["x86_64"])
                root = new_variant(ci, r, r, "variant", ["x86_64"])
                must("build-detached-subtree", child.add, grand)
                must("build-detached-subtree", root.add, child)
                if collide is not None:
                    # the twin arrives after the subtree was put together and before it is attached
                    dup = chain[collide]
                    must("add-dashed-top", ci.variants.add, new_variant(ci, dup.replace("-", ""), dup, "variant", ["x86_64"]))
                    forest.nodes[dup] = {"id": dup.replace("-", ""), "uid": dup, "type": "variant", "arches": ["x86_64"], "parent": None, "dashed": True}
                    before = structure(ci)
                if collide is None:
                    must("add-detached-subtree", ci.variants.add, root)
                    forest.nodes[chain[0]] = {"id": r, "uid": chain[0], "type": "variant", "arches": ["x86_64"], "parent": None}
                    forest.nodes[chain[1]] = {"id": c, "uid": chain[1], "type": "variant", "arches": ["x86_64"], "parent": chain[0]}
                    forest.nodes[chain[2]] = {"id": g, "uid": chain[2], "type": "addon", "arches": ["x86_64"], "parent": chain[1]}
                    labels.add("depth3")
                    labels.add("subtree-added-as-a-whole")
                    before = structure(ci)
                else:
                    refuses("add-subtree-with-duplicate-uid", (ValueError,), ci.variants.add, root)
                    labels.add("refused:subtree-duplicate-uid")
            elif bad == "dup-dashed-id":
                # a second top-level variant with the id of an existing dashed one ('ServerTools' of 'Server-Tools'): duplicate id
                dashed = sorted(u for u in uids if forest.nodes[u].get("dashed"))
                if not dashed:
                    continue
                d = forest.nodes[dashed[op["other"] % len(dashed)]]
                refuses("add-duplicate-top-id", (ValueError,), ci.variants.add, new_variant(ci, d["id"], d["id"], "variant", ["x86_64"]))
                labels.add("refused:dup-dashed-id")
            elif bad == "recover":
                # an incomplete variant (name / id of the wrong type) is refused by a nested variant, then completed by the
                # caller and added - validly - at the top level: the earlier refusal must not have left anything behind
                rid = "R%d" % step
                v = new_variant(ci, rid, "%s-%s" % (tuid, rid), "variant", target["arches"], name=[None, 5][op["other"] % 2])
                if op["other"] % 3 == 0:
                    v.name, v.id = "n", None
                refuses("add-incomplete-variant", (ValueError, TypeError), objs[tuid].add, v)
                check(structure(ci) == before, "refused-add-changed-forest", lambda: "step %d (recover): keys, objects or parent links changed" % step)
                v.id, v.uid, v.name = rid, rid, "n"
                must("add-completed-variant-at-top-level", ci.variants.add, v)
                forest.nodes[rid] = {"id": rid, "uid": rid, "type": "variant", "arches": list(target["arches"]), "parent": None}
                labels.add("recovered-after-refusal")
                before = structure(ci)
            elif bad == "malformed-id":
                wid = ["a-b", "a b", "", "é", "x.y"][op["other"] % 5]
                refuses("add-malformed-id", (ValueError, TypeError), objs[tuid].add, new_variant(ci, wid, "%s-%s" % (tuid, wid), "variant", target["arches"]))
            elif bad == "blank-name":
                refuses("add-blank-name", (ValueError, TypeError), objs[tuid].add, new_variant(ci, free_id, "%s-%s" % (tuid, free_id), "variant", target["arches"], name=""))
            elif bad == "unknown-type":
                refuses("add-unknown-type", (ValueError, TypeError), objs[tuid].add, new_variant(ci, free_id, "%s-%s" % (tuid, free_id), "Variant", target["arches"]))
            elif bad == "empty-arches":
                refuses("add-empty-arches", (ValueError, TypeError), objs[tuid].add, new_variant(ci, free_id, "%s-%s" % (tuid, free_id), "variant", []))
            check(structure(ci) == before, "refused-add-changed-forest", lambda: "step %d (%s): keys, objects or parent links changed" % (step, bad))
            labels.add("refused")
        elif kind == "roundtrip" and op.get("via"):
            import copy
            import pickle
            if op["via"] == "deepcopy":
                again = must("deepcopy", copy.deepcopy, ci)
            else:
                again = must("pickle", lambda: pickle.loads(pickle.dumps(ci)))
            # the copy is a forest of its own: nothing in it refers to the original (which is thrown away here)
            originals = set(id(v) for v in collect(ci).values())
            for v in collect(again).values():
                check(id(v) not in originals and (v.parent is None or id(v.parent) not in originals), "copy-refers-to-original",
                      "step %d: after %s, %r or its parent is an object of the original forest" % (step, op["via"], v.uid))
            poison_forest = collect(ci)
            ci = again
            for v in poison_forest.values():
                v.arches, v.uid = set(["poisoned"]), "poisoned-" + str(v.uid)
            labels.add("copied")
        elif kind == "roundtrip":
            text = must("dumps", ci.dumps)
            again = ComposeInfo()
            must("loads", again.loads, text)
            ci = again
            labels.add("roundtrip")
        elif kind == "query":
            on = None if op["on"] < 0 or not uids else uids[op["on"] % len(uids)]
            types = [t for t in op["types"] if t != "self" or on is not None]
            receiver = ci if on is None else objs[on]
            got = must("get_variants", receiver.get_variants, arch=op["arch"], types=list(types) or None, recursive=op["recursive"])
            seen = set()
            for v in got:
                check(id(v) not in seen, "query-duplicate", lambda: "step %d: %r returned twice" % (step, v.uid))
                seen.add(id(v))
            ulist = [v.uid for v in got]
            check(ulist == sorted(ulist), "query-not-sorted-by-uid", lambda: "step %d: %r" % (step, ulist))
            scope = (forest.subtree(on) if op["recursive"] else [k["uid"] for k in forest.children(on)]) if on is not None else \
                    (list(forest.nodes) if op["recursive"] else [u for u in forest.nodes if forest.nodes[u]["parent"] is None])
            for v in got:
                if on is not None and v is objs[on]:
                    check("self" in types, "query-unrequested-self", "step %d: receiver returned although 'self' was not requested" % step)
                    # "everything it returns has the requested architecture": the receiver is no exception
                    check(not op["arch"] or op["arch"] == "src" or op["arch"] in v.arches, "query-arch-filter",
                          lambda: "step %d: receiver %r returned as 'self' lacks arch %r" % (step, v.uid, op["arch"]))
                    continue
                check(v.uid in scope, "query-out-of-scope", lambda: "step %d: %r is not below the receiver (recursive=%r)" % (step, v.uid, op["recursive"]))
                if op["arch"] and op["arch"] != "src":
                    check(op["arch"] in v.arches, "query-arch-filter", lambda: "step %d: %r lacks arch %r" % (step, v.uid, op["arch"]))
                if types:
                    check(v.type in types, "query-type-filter", lambda: "step %d: %r has type %r, requested %r" % (step, v.uid, v.type, types))
            real_types = [t for t in types if t != "self"]
            if not types and op["arch"] in (None, "src"):
                check(sorted(ulist) == sorted(scope), "query-incomplete", lambda: "step %d: no filter returned %r, level/forest is %r" % (step, ulist, sorted(scope)))
            elif not types:
                # an arch filter alone loses nothing either: a child's arches are among its parent's, so every variant having
                # the arch is reached through parents having it
                having = sorted(u for u in scope if op["arch"] in forest.nodes[u]["arches"])
                check(sorted(ulist) == having, "query-incomplete", lambda: "step %d: arch=%r (recursive=%r) returned %r, variants having it: %r" % (
                    step, op["arch"], op["recursive"], ulist, having))
            if "self" in types and on is not None and (not op["arch"] or op["arch"] == "src" or op["arch"] in forest.nodes[on]["arches"]):
                check(objs[on] in got, "query-self-missing", "step %d: 'self' requested but receiver not returned" % step)
            if op["recursive"] and (op["arch"] not in (None,) or real_types) and got:
                filtered_recursive_query = True
            labels.add("query")
        objs = check_invariants(ci, forest, step)
    if filtered_recursive_query:
        labels.add("filtered-recursive-query")
    nt = "refused" in labels and "depth3" in labels and filtered_recursive_query
    return {"nontrivial": nt, "labels": sorted(labels)}


def run(ctx):
    ctx.forall("history", history_strategy, history_case, ctx.n(2400, 48000))


REPLAY = {"history": history_case}
