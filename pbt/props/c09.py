"""C09 Image identity is unique within a manifest (model-based, operation sequences)."""
import json

from hypothesis import strategies as st

from pbt import gen, im as imm
from pbt.runner import must, check, refuses, Violation

PROPERTY = "C09"
LEVEL = "exploration"
RULE = ("Generated operation sequences (<= 25 steps) over an Images manifest whose header version is drawn from "
        "{0.0, 1.0, 1.1, 1.2}: add(variant, arch, image) with images from a pool of ~10 records derived from one base record "
        "(each differs from it in at most one identity attribute and has equal or different checksums), as the shared pool "
        "object or a fresh object, into any cell; dumps->loads round trips. A reference model (dict of cells, refusal iff an "
        "equal-identity image with different checksums is stored anywhere and the version is >= 1.1) is compared with "
        "Images.images after every step. Separate sub-checks: hand-built documents containing a colliding pair at versions "
        "1.0/1.1/1.2/2.0, and identify_image(object) == identify_image(serialised dict) == independently recomputed tuple. "
        "Non-trivial = history with >= 1 refused add and >= 1 accepted add of an equal-identity/equal-checksum image; "
        "distinct = SHA-1 of the operation sequence. The raw mapping (empty cells included) is compared around refused adds; 'dumps' without replacing the object moves it to the current version mid-history. Histories continue on manifests read through the 1.0 / 1.1 readers, identity attributes of objects the manifest already knows are re-bound, and identify_image is asked again after a change.")
ASSUMPTIONS = ["cells use valid binary arches only (C10 covers refused arches)"]
FLOORS = {"history": 60, "history:refused-add": 100, "load-collision": 100}

ALT = {"subvariant": ["", "KDE", "Server"], "type": ["dvd", "boot", "cd"], "format": ["iso", "qcow2"], "arch": ["x86_64", "src", "i386"],
       "disc_number": [1, 2], "unified": [False, True], "additional_variants": [[], ["Client"], ["Client", "Server"]]}
CHECKSUMS = [{"sha256": "XXXXXX"}, {"sha256": "YYYYYY"}, {"sha256": "XXXXXX", "md5": "00"}]
CELL_VARIANTS = ["Server", "Client"]
CELL_ARCHES = ["x86_64", "i386", "aarch64"]


@st.composite
def pool_strategy(draw):
    base = draw(imm.image_record(small_pool=True))
    base["unified"] = False
    base["additional_variants"] = []
    base["checksums"] = dict(CHECKSUMS[0])
    pool = [base]
    n = draw(st.integers(5, 10))
    for i in range(n):
        rec = dict(base)
        attr = draw(st.sampled_from([None, None] + imm.IDENTITY))
        if attr is not None:
            rec[attr] = draw(st.sampled_from(ALT[attr]))
        if rec["additional_variants"] and not rec["unified"]:
            rec["unified"] = True   # documented constraint: only unified images carry additional variants
        rec["checksums"] = dict(draw(st.sampled_from(CHECKSUMS)))
        rec["path"] = "%s.%d" % (base["path"], i)
        rec["size"] = base["size"] + draw(st.integers(0, 3))
        pool.append(rec)
    return pool


op_strategy = st.one_of(
    st.fixed_dictionaries({"op": st.just("add"), "img": st.integers(0, 10), "variant": st.sampled_from(CELL_VARIANTS),
                           "arch": st.sampled_from(CELL_ARCHES), "fresh": st.booleans()}),
    st.fixed_dictionaries({"op": st.just("add"), "img": st.integers(0, 10), "variant": st.sampled_from(CELL_VARIANTS),
                           "arch": st.sampled_from(CELL_ARCHES), "fresh": st.booleans()}),
    st.fixed_dictionaries({"op": st.just("add"), "img": st.integers(0, 10), "variant": st.sampled_from(CELL_VARIANTS),
                           "arch": st.sampled_from(CELL_ARCHES), "fresh": st.booleans()}),
    st.just({"op": "roundtrip"}),
    st.just({"op": "dumps"}),
    st.sampled_from([{"op": "roundtrip", "as": "1.0"}, {"op": "roundtrip", "as": "1.1"}]),       # the content goes through an older format's reader
    # an identity attribute of an image object that is already known to the manifest is re-bound (identity is what the object says NOW)
    st.fixed_dictionaries({"op": st.just("retag"), "img": st.integers(0, 10), "attr": st.sampled_from(["subvariant", "disc_number", "arch"]), "value": st.integers(0, 2)}),
)
history_strategy = st.fixed_dictionaries({"pool": pool_strategy(), "version": st.sampled_from(["0.0", "1.0", "1.1", "1.2", "1.2", "1.1"]),
                                           "ops": st.lists(op_strategy, min_size=1, max_size=25)})


def ident(rec):
    return (rec["subvariant"], rec["type"], rec["format"], rec["arch"], rec["disc_number"], bool(rec["unified"]), list(rec["additional_variants"]))


def vt(version):
    return tuple(int(x) for x in version.split("."))


def real_table(im):
    out = {}
    for variant in im.images:
        for arch in im.images[variant]:
            cell = sorted(imm.rec_tuple({k: getattr(img, k) for k in imm.ATTRS}) for img in im.images[variant][arch])
            if cell:
                out[(variant, arch)] = cell
    return out


def raw_structure(im):
    """the public mapping exactly as it is, empty cells included (a refused add must leave it as it was)"""
    return {v: {a: sorted(id(img) for img in im.images[v][a]) for a in im.images[v]} for v in im.images}


def model_table(model):
    out = {}
    for cell, entries in model.items():
        if entries:
            out[cell] = sorted(imm.rec_tuple(rec) for rec in entries.values())
    return out


def history_case(case):
    from productmd.images import Images
    pool = case["pool"]
    im = Images()
    im.header.version = case["version"]
    imm.fill_compose(im.compose, {"id": "F-22-20160622.0", "type": "production", "date": "20160622", "respin": 0, "label": None, "final": False})
    version = case["version"]
    shared = {}                      # pool index -> the one shared Image object
    model = {}                       # (variant, arch) -> {object key: record}
    refused = accepted_equal = 0
    for step, op in enumerate(case["ops"]):
        if op["op"] == "add":
            idx = op["img"] % len(pool)
            rec = pool[idx]
            if op["fresh"]:
                img, key = imm.make_image(im, rec), ("fresh", step)
            else:
                if idx not in shared:
                    shared[idx] = imm.make_image(im, rec)
                img, key = shared[idx], ("pool", idx)
            stored = [r for entries in model.values() for r in entries.values()]
            clash = [r for r in stored if ident(r) == ident(rec) and r["checksums"] != rec["checksums"]]
            before = raw_structure(im)
            if vt(version) >= (1, 1) and clash:
                refuses("add-colliding", (ValueError,), im.add, op["variant"], op["arch"], img)
                check(raw_structure(im) == before, "refused-add-changed-manifest", lambda: "step %d: Images.images changed by a refused add: %r -> %r" % (
                    step, {v: sorted(a) for v, a in before.items()}, {v: sorted(im.images[v]) for v in im.images}))
                refused += 1
            else:
                must("add", im.add, op["variant"], op["arch"], img)
                model.setdefault((op["variant"], op["arch"]), {})[key] = rec
                if any(ident(r) == ident(rec) and r["checksums"] == rec["checksums"] for r in stored):
                    accepted_equal += 1
        elif op["op"] == "retag":
            idx = op["img"] % len(pool)
            if idx in shared:
                new_rec = dict(pool[idx])
                new_rec[op["attr"]] = ALT[op["attr"]][op["value"] % len(ALT[op["attr"]])]
                others = [r for cell, entries in model.items() for key, r in entries.items() if key != ("pool", idx)]
                if not any(ident(r) == ident(new_rec) and r["checksums"] != new_rec["checksums"] for r in others):
                    setattr(shared[idx], op["attr"], new_rec[op["attr"]])
                    pool = list(pool)
                    pool[idx] = new_rec
                    for entries in model.values():
                        if ("pool", idx) in entries:
                            entries[("pool", idx)] = new_rec
        elif op["op"] == "dumps":
            # written, but the caller goes on with the same object (which is now at the current version)
            must("dumps", im.dumps)
            version = "1.2"
        else:
            text = must("dumps", im.dumps)
            version = "1.2"          # writing converts the object to the current format
            stored = [r for entries in model.values() for r in entries.values()]
            collision = any(ident(a) == ident(b) and a["checksums"] != b["checksums"] for a in stored for b in stored)
            again = Images()
            if op.get("as"):
                # the same content presented as an older document: whatever the reader, a loaded manifest is a current one
                doc = json.loads(text)
                doc["header"] = {"version": "1.0"} if op["as"] == "1.0" else {"version": "1.1", "type": "productmd.images"}
                text = json.dumps(doc)
            if collision and op.get("as") == "1.0":
                # recorded finding KF-C05-images-1.0-collision: a 1.0 document with a colliding pair is accepted; leave that class to C05
                pass
            elif collision:
                # only reachable when the adds were made below 1.1: the written file contains a colliding pair
                refuses("load-colliding-dump", (ValueError,), again.loads, text)
            else:
                must("loads", again.loads, text)
                im = again
                shared = {}
                n = 0
                new_model = {}
                for cell, entries in model.items():
                    for rec in entries.values():
                        new_model.setdefault(cell, {})[("loaded", step, n)] = rec
                        n += 1
                model = new_model
        got, want = real_table(im), model_table(model)
        check(got == want, "manifest-differs-from-model", lambda: "after step %d (%r): cells %r vs model %r" % (
            step, op, sorted(got), sorted(want)))
        if vt(version) >= (1, 1) and vt(case["version"]) >= (1, 1):
            imgs = [img for v in im.images for a in im.images[v] for img in im.images[v][a]]
            for a in imgs:
                for b in imgs:
                    same = all(getattr(a, k) == getattr(b, k) for k in imm.IDENTITY)
                    check(not (same and a.checksums != b.checksums), "invariant-broken",
                          "step %d: two stored images share the identity attributes but differ in checksums" % step)
    labels = ["v" + case["version"]]
    if refused:
        labels.append("refused-add")
    if accepted_equal:
        labels.append("accepted-equal-identity")
    if any(o["op"] == "roundtrip" for o in case["ops"]):
        labels.append("roundtrip")
    if any(o.get("as") for o in case["ops"]):
        labels.append("reload-as-older-format")
    if any(o["op"] == "dumps" for o in case["ops"]):
        labels.append("dumps-and-continue")
    return {"nontrivial": bool(refused and accepted_equal), "labels": labels}


# ---- documents containing a colliding pair ------------------------------------------------------------------------
doc_strategy = st.fixed_dictionaries({
    "pool": pool_strategy(), "a": st.integers(0, 10), "b": st.integers(0, 10),
    "version": st.sampled_from(["1.0", "1.1", "1.2", "2.0", "1.10"]),
    "cell_a": st.tuples(st.sampled_from(CELL_VARIANTS), st.sampled_from(CELL_ARCHES)),
    "cell_b": st.tuples(st.sampled_from(CELL_VARIANTS), st.sampled_from(CELL_ARCHES)),
    "different_checksums": st.booleans(),
    # older documents keep source images in a "src" section that the reader re-files under the variant's binary arches: the second
    # image of the pair sits there, and the section is listed FIRST among the variant's arches
    "src_first": st.booleans(),
    # 'format' is optional in a record (the reader takes "iso"): the pair is spelled without it, the files named as producers name them
    "omit_format": st.integers(0, 3).map(lambda i: i == 0),
})


def doc_case(case):
    from productmd.images import Images
    pool = case["pool"]
    a = dict(pool[case["a"] % len(pool)])
    b = dict(pool[case["b"] % len(pool)])
    for k in imm.IDENTITY:
        b[k] = a[k]
    b["path"] = a["path"] + ".second"
    b["checksums"] = {"sha256": "ZZZZZZ"} if case["different_checksums"] else dict(a["checksums"])
    real_rec_doc = imm.rec_doc
    if case.get("omit_format"):
        a["format"] = b["format"] = "iso"
        a["path"], b["path"] = "images/disc1.iso", "images/disc1.qcow2"

        def rec_doc(rec):
            d = real_rec_doc(rec)
            d.pop("format", None)
            return d
    else:
        rec_doc = real_rec_doc
    images = {}
    expected_n = 2
    if case.get("src_first") and vt(case["version"]) <= (1, 1):
        (va, aa), (vb, _) = case["cell_a"], case["cell_b"]
        if va != vb:
            images[va] = {aa: [rec_doc(a)]}                                  # read first
            images[vb] = {"src": [rec_doc(b)], "x86_64": []}                  # then the source image, re-filed under x86_64
        else:
            images[vb] = {"src": [rec_doc(a), rec_doc(b)], "x86_64": []}  # both are source images of one variant
        expected_n = 2
    else:
        for rec, (variant, arch) in ((a, case["cell_a"]), (b, case["cell_b"])):
            images.setdefault(variant, {}).setdefault(arch, []).append(rec_doc(rec))
    header = {"version": case["version"]}
    if vt(case["version"]) >= (1, 1):
        header["type"] = "productmd.images"
    doc = {"header": header, "payload": {"compose": {"id": "F-22-20160622.0", "type": "production", "date": "20160622", "respin": 0},
                                         "images": images}}
    im = Images()
    enforced = vt(case["version"]) >= (1, 1)
    if enforced and case["different_checksums"]:
        try:
            im.loads(json.dumps(doc))
        except Exception:  # noqa  ("rejected on load": the exception type is not constrained)
            return {"nontrivial": True, "labels": ["rejected", "v" + case["version"]] + (["src-section-first"] if case.get("src_first") and vt(case["version"]) <= (1, 1) else []) + (["format-left-out"] if case.get("omit_format") else [])}
        raise Violation("colliding-document-loaded", "a %s document with two images of equal identity %r and different checksums was loaded" % (
            case["version"], ident(a)))
    must("load-legal-document", im.loads, json.dumps(doc))
    n = sum(len(im.images[v][x]) for v in im.images for x in im.images[v])
    check(n == expected_n, "image-lost", "legal %s document: %d filed images expected, %d found" % (case["version"], expected_n, n))
    return {"nontrivial": case["different_checksums"], "labels": ["accepted", "v" + case["version"]] + (["src-section-first"] if case.get("src_first") and vt(case["version"]) <= (1, 1) else [])}


# ---- identify_image ---------------------------------------------------------------------------------------------------
def identify_case(rec):
    from productmd.images import Images, identify_image
    im = Images()
    img = imm.make_image(im, rec)
    out = []
    must("serialize", img.serialize, out)
    from_obj = must("identify-object", identify_image, img)
    from_dict = must("identify-dict", identify_image, out[0])
    from_doc = must("identify-json-dict", identify_image, json.loads(json.dumps(out[0])))
    want = ident(rec)
    check(tuple(from_obj) == want, "identity-of-object", lambda: "identify_image(object) = %r, attributes say %r" % (tuple(from_obj), want))
    check(from_obj == from_dict == from_doc, "identity-object-vs-dict", lambda: "object %r, dict %r, json dict %r" % (from_obj, from_dict, from_doc))
    check(tuple(from_obj._fields) == tuple(imm.IDENTITY), "identity-fields", "%r" % (from_obj._fields,))
    # an object whose identity has no place in the dictionary (additional variants on an image that is not unified): it either has
    # no serialised dictionary at all (refused) or the two identities agree
    odd = imm.make_image(im, rec)
    odd.unified, odd.additional_variants = False, list(rec.get("additional_variants") or []) + ["Extra"]
    odd_out = []
    try:
        odd.serialize(odd_out)
    except (ValueError, TypeError):
        odd_out = None
    if odd_out:
        a, b = must("identify-object", identify_image, odd), must("identify-dict", identify_image, odd_out[0])
        check(a == b, "identity-object-vs-dict", lambda: "image that is not unified and names additional variants: object %r, its dictionary %r" % (a, b))
    # identity is what the object says NOW: re-bind identity attributes of the object that was just identified and ask again
    changed = dict(rec, subvariant=rec["subvariant"] + "x", disc_number=rec["disc_number"] + 1, arch="s390x" if rec["arch"] != "s390x" else "x86_64")
    img.subvariant, img.disc_number, img.arch = changed["subvariant"], changed["disc_number"], changed["arch"]
    again = must("identify-object-after-change", identify_image, img)
    check(tuple(again) == ident(changed), "identity-of-changed-object", lambda: "after re-binding subvariant/disc_number/arch identify_image(object) = %r, attributes say %r" % (
        tuple(again), ident(changed)))
    return {"nontrivial": rec["unified"] or bool(rec["subvariant"]), "labels": ["unified" if rec["unified"] else "plain"]}


def run(ctx):
    ctx.forall("history", history_strategy, history_case, ctx.n(2000, 48000))
    ctx.forall("load-collision", doc_strategy, doc_case, ctx.n(600, 24000))
    ctx.forall("identify", imm.image_record(), identify_case, ctx.n(600, 24000))


REPLAY = {"history": history_case, "load-collision": doc_case, "identify": identify_case}
