"""C07 Documents violating a documented constraint are rejected on load."""
import copy
import json

from hypothesis import strategies as st

from pbt import gen, ci as cim, im as imm, ti as tim, manifests as mf
from pbt.props import c06
from pbt import rules
from pbt.runner import must, check, Violation, HarnessError

PROPERTY = "C07"
LEVEL = "exploration"
RULE = ("A valid current-version document of each format (text written by the library from a generated description, parsed by "
        "stdlib json / a line-based INI reader) receives ONE corruption drawn from the complete single-corruption "
        "neighbourhood the hand-written document rule table defines for that document: any validated value anywhere "
        "(compose section, release/base product, every variant in the forest incl. arch and UID relations and nested "
        "layered-product releases, every image of every cell, tree/stage2/media/checksums/image tables, discinfo lines) "
        "replaced by a value outside its documented domain, header type of another format (1.1 and later), mangled version "
        "string, or one required key/section deleted. loads() - load(path) for a fraction - must raise; it must never return. "
        "The neighbourhood of rich fixed documents is swept completely. Second, rule-table-free metamorphic oracle on "
        "structurally mutated documents (delete / null / int / str / list / empty / swap at any JSON path or INI option): IF "
        "the load succeeds THEN dumps() succeeds, its reload succeeds and the second dump is byte-identical. Non-trivial = "
        "the corrupted position is below the top level and the mutated document still parses as JSON/INI; distinct = SHA-1 "
        "of document+corruption. Pattern fields additionally receive mechanically derived near misses (single-character edits of valid exemplars rejected by regex-free reference predicates); records sharing an identity get the checksums of ONE copy changed; thorough tier adds an atheris/libFuzzer campaign over the same metamorphic target. A refused document is offered to the same object a second time (a retry teaches the object nothing); UID clashes and 'src' as a foreign child arch are part of the rule table; same-field copies between records are part of the metamorphic mutations.")
ASSUMPTIONS = ["values the readers documentedly coerce (numeric strings for image integers, truthy values for booleans, upper-case release type, empty label) are not corruptions",
               "treeinfo: [header] and [tree] have a documented legacy fallback and are not 'required'; rpms/modules/extra_files: only header and compose section are validated"]
FLOORS = {"distinct_nontrivial": 1500, "corruption": 600, "neighbourhood-sweep": 300, "metamorphic": 500, "metamorphic:load-succeeded": 100}

DELETE = "<<delete>>"
TYPES = {"composeinfo": "productmd.composeinfo", "images": "productmd.images", "rpms": "productmd.rpms", "modules": "productmd.modules",
         "extra_files": "productmd.extra_files", "treeinfo": "productmd.treeinfo"}
BAD_VERSIONS = ["1", "1.2.3", "a.b", "1.x", "", 1.2, None, "1.", ".2", "-1.2", "v1.2", "1,2"] + rules.BAD_HEADER_VERSIONS
BAD_INT = [None, "x", [], {}]


def loader(fmt):
    import productmd.composeinfo
    import productmd.images
    import productmd.rpms
    import productmd.modules
    import productmd.extra_files
    import productmd.treeinfo
    import productmd.discinfo
    return {"composeinfo": productmd.composeinfo.ComposeInfo, "images": productmd.images.Images, "rpms": productmd.rpms.Rpms,
            "modules": productmd.modules.Modules, "extra_files": productmd.extra_files.ExtraFiles, "treeinfo": productmd.treeinfo.TreeInfo,
            "discinfo": productmd.discinfo.DiscInfo}[fmt]


# ---- JSON documents ---------------------------------------------------------------------------------------------------
def compose_candidates(prefix):
    out = []
    for v in ["Production", "", None, "prod", 5]:
        out.append((prefix + ["type"], v))
    for v in ["2015", "201505221", "2015-5-2", "abcdefgh", None, 20150522, ""] + rules.BAD_DATES:
        out.append((prefix + ["date"], v))
    for v in ["", None, "Foo-1.0", 5]:
        out.append((prefix + ["id"], v))
    for v in [None, "1", 1.5, []]:
        out.append((prefix + ["respin"], v))
    for v in ["GA", "Beta", "Beta-1", "Beta-1.", "beta-1.0", "RC-1.0.0", "Foo-1.0", 5, "RC-100", "RC-20240101"] + rules.BAD_LABELS:
        out.append((prefix + ["label"], v))
    for k in ("id", "type", "date", "respin"):
        out.append((prefix + [k], DELETE))
    return out


def json_candidates(fmt, doc):
    """complete list of single corruptions of this document: (path, value)"""
    out = [(["header", "version"], v) for v in BAD_VERSIONS]
    out += [(["header", "type"], t) for f, t in sorted(TYPES.items()) if f != fmt] + [(["header", "type"], DELETE), (["header", "type"], None)]
    out += [(["header"], DELETE), (["header", "version"], DELETE), (["payload"], DELETE), (["payload", "compose"], DELETE)]
    # a foreign type at exactly 1.1 (where the type became mandatory) and at later versions
    other = sorted(t for f, t in TYPES.items() if f != fmt)
    out += [(["header"], {"type": other[i % len(other)], "version": v}) for i, v in enumerate(["1.1", "1.1", "1.3", "2.0", "10.0", "1.10"])]
    out += [(["header"], {"version": v}) for v in ["1.1", "1.3"]]          # type missing altogether
    out += compose_candidates(["payload", "compose"])
    p = doc["payload"]
    if fmt in ("rpms", "modules", "extra_files"):
        out.append((["payload", fmt], DELETE))
    if fmt == "composeinfo":
        rel = ["payload", "release"]
        out += [(rel, DELETE), (["payload", "variants"], DELETE)]
        for k in ("name", "version", "short"):
            out.append((rel + [k], DELETE))
        out += [(rel + ["type"], v) for v in ["bogus", None, "", 5]] + [(rel + ["version"], v) for v in ["1.", "1..2", "1a", "", None, 7] + rules.BAD_NUMERIC_VERSIONS]
        out += [(rel + ["name"], v) for v in [None, 5]] + [(rel + ["short"], v) for v in [None, 5]]
        if "base_product" in p:
            bp = ["payload", "base_product"]
            out += [(bp, DELETE)] + [(bp + [k], DELETE) for k in ("name", "version", "short")]
            out += [(bp + ["type"], v) for v in ["bogus", None, "GA"]] + [(bp + ["version"], v) for v in ["1.", "1a", None]] + [(bp + ["name"], 5)]
        for uid in sorted(p["variants"]):
            var = ["payload", "variants", uid]
            v = p["variants"][uid]
            out += [(var + [k], DELETE) for k in ("id", "uid", "name", "type", "arches", "paths")]
            out += [(var + ["id"], x) for x in ["a-b", "a b", "", None, "x.y", "S\u00e9rveur", "Server\u0662"] + rules.BAD_VARIANT_IDS[::5]] + [(var + ["name"], x) for x in ["", None, 5]]
            out += [(var + ["type"], x) for x in ["bogus", None, "Variant", ""]] + [(var + ["arches"], x) for x in [[], None, 5, "x86_64", ""]]      # a string is not a list of arches
            out += [(var + ["uid"], "X" + v["uid"]), (var + ["uid"], v["uid"] + "x")]
            out += [(var + ["uid"], o) for o in sorted(p["variants"]) if o != uid]          # claims the UID of another variant
            parents = [u for u in p["variants"] if uid.startswith(u + "-") and uid[len(u) + 1:] in p["variants"][u].get("variants", [])]
            for par in parents:
                grands = [g for g in p["variants"] if par.startswith(g + "-") and par[len(g) + 1:] in p["variants"][g].get("variants", [])]
                for g in grands:
                    borrowed = sorted(set(p["variants"][g]["arches"]) - set(p["variants"][par]["arches"]))
                    if borrowed:
                        out.append((var + ["arches"], sorted(set(v["arches"]) | {borrowed[0]})))      # arch of the grandparent the parent lacks
            for par in parents:
                if "src" not in p["variants"][par]["arches"] and "src" not in v["arches"]:
                    out.append((var + ["arches"], sorted(set(v["arches"]) | {"src"})))      # the pseudo-arch every variant matches is not an arch every variant has
            out.append((var + ["arches"], sorted(set(v["arches"]) | {"s390x-not-in-parent"})) if "-" in uid and any(
                uid.startswith(u + "-") and uid[len(u) + 1:] in p["variants"][u].get("variants", []) for u in p["variants"]) else (var + ["type"], "addon-x"))
            if "release" in v:
                out += [(var + ["release", "type"], "bogus"), (var + ["release", "version"], "1."), (var + ["release", "name"], None), (var + ["release"], DELETE)]
            if v.get("variants"):
                out.append((var + ["variants"], v["variants"] + ["Ghost"]))       # references a child that does not exist
    if fmt == "images":
        out.append((["payload", "images"], DELETE))
        # documented identity rule (doc/images-1.1.rst): records sharing subvariant/type/format/arch/disc_number/unified/
        # additional_variants must be the same image -> changing the checksums of ONE copy makes the document invalid
        def ident(rec):
            return json.dumps([rec.get(k) for k in ("subvariant", "type", "format", "arch", "disc_number")] + [rec.get("unified") or False, rec.get("additional_variants") or []])
        counts = {}
        for variant in p["images"]:
            for arch in p["images"][variant]:
                for rec in p["images"][variant][arch]:
                    counts[ident(rec)] = counts.get(ident(rec), 0) + 1
        for variant in sorted(p["images"]):
            for arch in sorted(p["images"][variant]):
                for i, rec in enumerate(p["images"][variant][arch]):
                    if counts[ident(rec)] >= 2:
                        out.append((["payload", "images", variant, arch, i, "checksums"], {"sha256": "0" * 64, "corrupted": "yes"}))
        for variant in sorted(p["images"]):
            for arch in sorted(p["images"][variant]):
                for i, rec in enumerate(p["images"][variant][arch]):
                    img = ["payload", "images", variant, arch, i]
                    for k in ("path", "mtime", "size", "volume_id", "type", "arch", "disc_number", "disc_count", "checksums", "implant_md5", "bootable", "subvariant"):
                        out.append((img + [k], DELETE))
                    out += [(img + ["path"], x) for x in ["", None, 5]] + [(img + ["mtime"], x) for x in BAD_INT] + [(img + ["size"], x) for x in BAD_INT + [0]]
                    out += [(img + ["volume_id"], x) for x in ["", 5]] + [(img + ["type"], x) for x in ["floppy", None, "DVD", ""]]
                    out += [(img + ["format"], x) for x in ["ISO", "zip", None, ""]] + [(img + ["arch"], x) for x in ["", None, 5]]
                    out += [(img + ["disc_number"], x) for x in BAD_INT] + [(img + ["disc_count"], x) for x in BAD_INT]
                    out += [(img + ["checksums"], x) for x in [{}, None, [["md5", "x"]]]]
                    out += [(img + ["implant_md5"], x) for x in ["abc", "A" * 32, "0123456789abcdef0123456789abcde-", "a" * 33, "a" * 31, 5, ""] + rules.BAD_MD5[::9]]
                    out += [(img + ["subvariant"], x) for x in [None, 5]] + [(img + ["unified"], x) for x in ["yes", None, 1]]
                    if rec.get("unified"):
                        out += [(img + ["unified"], False), (img + ["unified"], DELETE), (img + ["additional_variants"], "Server"), (img + ["additional_variants"], None)] \
                            if rec.get("additional_variants") else [(img + ["additional_variants"], "Server")]
                    else:
                        out += [(img + ["additional_variants"], ["Server"]), (img + ["additional_variants"], "Server")]
                # architecture keys of the table itself
                out.append((["payload", "images", variant, arch], ("<<rename>>", "src")))
                out.append((["payload", "images", variant, arch], ("<<rename>>", "nosrc")))
                out.append((["payload", "images", variant, arch], ("<<rename>>", "x86-64")))
    return out


def apply_json(doc, path, value):
    doc = copy.deepcopy(doc)
    node = doc
    for k in path[:-1]:
        node = node[k]
    last = path[-1]
    if value == DELETE:
        del node[last]
    elif isinstance(value, tuple) and value and value[0] == "<<rename>>":
        if value[1] in node:
            return None
        node[value[1]] = node.pop(last)
    else:
        if isinstance(node, dict) and last in node and node[last] == value:
            return None
        node[last] = value
    return doc


# ---- INI documents (treeinfo) and discinfo lines -------------------------------------------------------------------------
def render_ini(ini):
    out = []
    for sec in sorted(ini):
        out.append("[%s]" % sec)
        for k in sorted(ini[sec]):
            out.append("%s = %s" % (k, ini[sec][k]))
        out.append("")
    return "\n".join(out)


def ini_candidates(ini):
    out = [(("header", "version"), v) for v in ["1", "1.2.3", "a.b", "1.x", "", "1.", ".2", "-1.2", "v1.2"]]
    out += [(("header", "type"), t) for f, t in sorted(TYPES.items()) if f != "treeinfo"] + [(("header", "type"), DELETE)]
    out += [(("header", "<<both>>"), (v, t)) for v, t in [("1.1", "productmd.images"), ("1.1", "productmd.composeinfo"), ("1.3", "productmd.rpms"), ("2.0", "productmd.images")]]
    out += [(("release", None), DELETE), (("release", "name"), DELETE), (("release", "version"), DELETE)]
    out += [(("release", "version"), v) for v in ["1.", "1..2", "1a", "\u0667.x", "\uff17-beta"]] + [(("release", "is_layered"), v) for v in ["maybe", "2"]]
    if "base_product" in ini:
        out += [(("base_product", None), DELETE)] + [(("base_product", k), DELETE) for k in ("name", "version", "short")] + [(("base_product", "version"), "1."), (("base_product", "version"), "1a"), (("base_product", "version"), "\u0667.x")]
    out += [(("tree", "arch"), ""), (("tree", "arch"), DELETE), (("tree", "build_timestamp"), "x"), (("tree", "build_timestamp"), "0"), (("tree", "build_timestamp"), DELETE),
            (("tree", "platforms"), DELETE)]
    # image tables are checked against the platforms the file names: images for the tree arch while [tree] platforms leaves it out
    if "tree" in ini and "images-%s" % ini["tree"].get("arch") in ini:
        rest = [p for p in ini["tree"].get("platforms", "").split(",") if p and p != ini["tree"]["arch"]]
        out.append((("tree", "platforms"), ",".join(rest)))
    # a valid value followed by blank + ';' + anything is ONE value (the format has no inline comments): still outside the domain
    for sec, opt in (("header", "version"), ("header", "type"), ("release", "version"), ("tree", "build_timestamp"), ("release", "is_layered")):
        if sec in ini and opt in ini[sec] and (opt != "version" or sec != "release" or "0" <= ini[sec][opt][:1] <= "9"):      # a free-form version stays free-form
            out += [((sec, opt), "%s ;%s" % (ini[sec][opt], tail)) for tail in ("0", " see below")] + [((sec, opt), "%s #x" % ini[sec][opt])]
    for sec in sorted(ini):
        if sec.startswith("variant-") or sec.startswith("addon-"):
            out += [((sec, "type"), "%s ;bogus" % ini[sec].get("type", "variant"))]
            # [addon-*] sections describe addons, [variant-*] sections everything else: a type that belongs into the other kind of section
            out.append(((sec, "type"), "variant" if sec.startswith("addon-") else "addon"))        # (ids and arches are free-form text: 'Server ;x' is an id)
    for sec in sorted(ini):
        if sec.startswith("variant-") or sec.startswith("addon-"):
            out += [((sec, None), DELETE)] + [((sec, k), DELETE) for k in ("id", "uid", "name", "type")]
            out += [((sec, "id"), "a-b"), ((sec, "type"), "bogus"), ((sec, "type"), "layered-product")]
            if "parent" in ini[sec]:
                out.append(((sec, "uid"), "X" + ini[sec]["uid"]))
            # UIDs are unique within a tree: this variant claims the UID of another one
            out += [((sec, "uid"), ini[o]["uid"]) for o in sorted(ini) if (o.startswith("variant-") or o.startswith("addon-")) and o != sec
                    and ini[o].get("uid") not in (None, ini[sec].get("uid"))]
            if "addons" in ini[sec]:
                out.append(((sec, "addons"), ini[sec]["addons"] + ",Ghost-Child"))
        if sec.startswith("images-"):
            for k in sorted(ini[sec]):
                out.append(((sec, k), "/boot/" + ini[sec][k]))
    out.append((("images-ghost_platform", "kernel"), "vmlinuz"))
    if "stage2" in ini and "mainimage" in ini["stage2"]:
        out.append((("stage2", "mainimage"), "/abs/stage2.img"))
    if "stage2" in ini and "instimage" in ini["stage2"]:
        out.append((("stage2", "instimage"), "/abs/inst.img"))
    out.append((("checksums", "/abs/repomd.xml"), "sha256:aa"))
    out += [(("checksums", "odd-length"), "a" * n) for n in (0, 31, 33, 41, 65)]
    # the length of a digest, but no digest: letters beyond f, junk behind 32 good characters, junk in front of them
    out += [(("checksums", "no-digest"), v) for v in ("z" * 32, "0123456789abcdef" * 2 + "-no-hex-", "0123456789abcdef" * 2 + "-this-is-not-a-digest-at-all!!!!",
                                                      "not-hex-" + "0123456789abcdef" * 2, "0123456789abcdef" * 3 + "0123456789abcdeg", "ab" * 19 + "g1")]
    if "media" in ini:
        out += [(("media", "discnum"), "x"), (("media", "totaldiscs"), "1.5"), (("media", "discnum"), DELETE), (("media", "totaldiscs"), DELETE)]
    out.append((("tree", "variants"), ini["tree"]["variants"] + ",Ghost"))
    return out


def apply_ini(ini, where, value):
    ini = copy.deepcopy(ini)
    sec, opt = where
    if opt == "<<both>>":
        ini["header"] = {"version": value[0], "type": value[1]}
        return ini
    if value == DELETE:
        if opt is None:
            if sec not in ini:
                return None
            del ini[sec]
        else:
            if opt not in ini.get(sec, {}):
                return None
            del ini[sec][opt]
    else:
        if ini.get(sec, {}).get(opt) == value:
            return None
        ini.setdefault(sec, {})[opt] = value
    return ini


def disc_candidates(lines):
    out = [(0, "abc"), (0, "0"), (0, "0.0"), (0, ""), (1, ""), (1, '""'), (2, ""), (3, "1,x"), (3, "a"), (3, "1,,2"), (None, 1), (None, 2), (0, "1.5x"), (3, "1.5")]
    return out


def apply_disc(lines, idx, value):
    lines = list(lines)
    if idx is None:
        return lines[:value]
    if lines[idx] == value:
        return None
    lines[idx] = value
    return lines


# ---- one corruption -------------------------------------------------------------------------------------------------------
def valid_text(fmt, desc):
    obj = c06.build(fmt, desc)
    if fmt == "treeinfo":
        return tim.dump_text(obj, None)
    return obj.dumps()


def must_reject(fmt, text, label, via_file=False):
    import os
    import shutil
    import tempfile
    obj = loader(fmt)()
    try:
        if via_file:
            tmp = tempfile.mkdtemp(prefix="c07-")
            try:
                path = os.path.join(tmp, "doc")
                with open(path, "w") as fo:
                    fo.write(text)
                obj.load(path)
            finally:
                shutil.rmtree(tmp, ignore_errors=True)
        else:
            obj.loads(text)
    except Exception:  # noqa  ("rejected with an exception": the type is not constrained)
        # a caller's retry (the same object, the same document) is answered the same way: a refusal teaches the object nothing
        try:
            obj.loads(text)
        except Exception:  # noqa
            return
        raise Violation("corrupted-document-loaded-on-retry", "%s document with %s was refused, and then accepted when the same object was asked again" % (fmt, label))
    raise Violation("corrupted-document-loaded", "%s document with %s was returned as a successfully loaded object" % (fmt, label))


def corrupted(fmt, text, selector):
    """returns (label, new text, nested?) for the selector-th corruption of this document, or None"""
    if fmt == "treeinfo":
        ini = tim.read_ini(text)
        cands = ini_candidates(ini)
        where, value = cands[selector % len(cands)]
        new = apply_ini(ini, where, value)
        if new is None:
            return None
        return "[%s] %s -> %r" % (where[0], where[1], value), render_ini(new), where[0] not in ("header",)
    if fmt == "discinfo":
        lines = text.split("\n")
        cands = disc_candidates(lines)
        idx, value = cands[selector % len(cands)]
        new = apply_disc(lines, idx, value)
        if new is None:
            return None
        return "line %r -> %r" % (idx, value), "\n".join(new), False
    doc = json.loads(text)
    cands = json_candidates(fmt, doc)
    path, value = cands[selector % len(cands)]
    new = apply_json(doc, path, value)
    if new is None:
        return None
    return "%s -> %r" % ("/".join(str(p) for p in path), value), json.dumps(new), len(path) >= 3


_descs = dict(c06._descs)
case_strategy = st.sampled_from(["composeinfo", "composeinfo", "composeinfo", "images", "images", "images", "treeinfo", "treeinfo", "treeinfo",
                                 "rpms", "modules", "extra_files", "discinfo"]).flatmap(
    lambda fmt: st.fixed_dictionaries({"format": st.just(fmt), "desc": _descs[fmt] if fmt in _descs else c06._disc(), "selector": st.integers(0, 5000),
                                       "via_file": st.integers(0, 7).map(lambda i: i == 0)}))


def corruption_case(case):
    fmt = case["format"]
    text = must("dump-valid-object", valid_text, fmt, case["desc"])
    must("valid-document-rejected", loader(fmt)().loads, text)
    res = corrupted(fmt, text, case["selector"])
    if res is None:
        return {"nontrivial": False, "labels": ["no-op", fmt]}
    label, bad, nested = res
    must_reject(fmt, bad, label, case.get("via_file"))
    return {"nontrivial": nested, "labels": [fmt]}


def sweep_cases():
    for fmt in c06.FORMATS:
        text = valid_text(fmt, c06.rich(fmt))
        if fmt == "treeinfo":
            n = len(ini_candidates(tim.read_ini(text)))
        elif fmt == "discinfo":
            n = len(disc_candidates(text.split("\n")))
        else:
            n = len(json_candidates(fmt, json.loads(text)))
        for i in range(n):
            yield {"format": fmt, "selector": i}


def sweep_case(case):
    fmt = case["format"]
    text = valid_text(fmt, c06.rich(fmt))
    res = corrupted(fmt, text, case["selector"])
    if res is None:
        return {"nontrivial": False, "labels": ["no-op"]}
    label, bad, nested = res
    must_reject(fmt, bad, label)
    return {"nontrivial": nested, "labels": [fmt]}


# ---- metamorphic: load succeeded => dump succeeds => reload succeeds => identical bytes ----------------------------------
REPLACEMENTS = [None, 0, 1, -1, 1.5, "", "x", "1", "1.0", [], {}, ["x"], {"x": "y"}, True, False, "src", "x86_64", "variant", "ga", "20160622", "production"]


def json_paths(doc, prefix=()):
    out = []
    if isinstance(doc, dict):
        for k in sorted(doc):
            out.append(prefix + (k,))
            out += json_paths(doc[k], prefix + (k,))
    elif isinstance(doc, list):
        for i, v in enumerate(doc):
            out.append(prefix + (i,))
            out += json_paths(v, prefix + (i,))
    return out


meta_strategy = st.sampled_from(["composeinfo", "composeinfo", "images", "images", "treeinfo", "treeinfo", "rpms", "modules", "extra_files", "discinfo"]).flatmap(
    lambda fmt: st.fixed_dictionaries({"format": st.just(fmt), "desc": _descs[fmt] if fmt in _descs else c06._disc(), "where": st.integers(0, 100000),
                                       "how": st.one_of(st.integers(0, len(REPLACEMENTS) + 3), st.just(len(REPLACEMENTS) + 4)), "other": st.integers(0, 100000)}))


def mutate(fmt, text, where, how, other):
    if fmt == "treeinfo":
        ini = tim.read_ini(text)
        slots = [(s, None) for s in sorted(ini)] + [(s, o) for s in sorted(ini) for o in sorted(ini[s])]
        if how >= len(REPLACEMENTS) + 4:
            names = [o for _, o in slots if o is not None]
            peers = [(s1, o1) for s1, o1 in slots if o1 is not None and names.count(o1) > 1]
            slots_here = peers or slots
        else:
            slots_here = slots
        sec, opt = slots_here[where % len(slots_here)]
        if opt is None:
            if how % 3 == 0:
                del ini[sec]
            elif how % 3 == 1:
                ini[sec + "x"] = ini.pop(sec)
            else:
                ini[sec] = {}
        elif how >= len(REPLACEMENTS) + 4:
            # the value of the same option of another record (two records then claim the same id / uid / path ...)
            same = [(s2, o2) for s2, o2 in slots if o2 == opt and s2 != sec]
            if same:
                s2, o2 = same[other % len(same)]
                ini[sec][opt] = ini[s2][o2]
        elif how >= len(REPLACEMENTS):
            if how % 2:
                del ini[sec][opt]
            else:
                s2, o2 = slots[other % len(slots)]
                if o2 is not None:
                    ini[sec][opt] = ini[s2][o2]
        else:
            r = REPLACEMENTS[how]
            ini[sec][opt] = "" if r is None else (",".join(map(str, r)) if isinstance(r, (list, dict)) else str(r))
        return render_ini(ini)
    if fmt == "discinfo":
        lines = text.split("\n")
        i = where % len(lines)
        if how >= len(REPLACEMENTS):
            del lines[i]
        else:
            r = REPLACEMENTS[how]
            lines[i] = "" if r is None else str(r)
        return "\n".join(lines)
    doc = json.loads(text)
    paths = json_paths(doc)
    if how >= len(REPLACEMENTS) + 4:
        lasts = [q[-1] for q in paths if not isinstance(q[-1], int)]
        peers = [q for q in paths if not isinstance(q[-1], int) and lasts.count(q[-1]) > 1]
        path = (peers or paths)[where % len(peers or paths)]
    else:
        path = paths[where % len(paths)]
    node = doc
    for k in path[:-1]:
        node = node[k]
    if how >= len(REPLACEMENTS) + 4:
        same = [q for q in paths if q[-1] == path[-1] and q != path and not isinstance(q[-1], int)]
        if same:
            val = doc
            for k in same[other % len(same)]:
                val = val[k]
            node[path[-1]] = copy.deepcopy(val)
    elif how >= len(REPLACEMENTS):
        if how % 2 or isinstance(node, list):
            del node[path[-1]]
        else:
            src = paths[other % len(paths)]
            val = doc
            for k in src:
                val = val[k]
            node[path[-1]] = copy.deepcopy(val)
    else:
        node[path[-1]] = REPLACEMENTS[how]
    return json.dumps(doc)


def separator_in_list_element(tree_info):
    elements, todo = [tree_info.tree.arch], list(tree_info.variants.variants.values())
    while todo:
        v = todo.pop()
        elements += [v.id, v.uid]
        todo.extend(v.variants.values())
    return any(isinstance(e, str) and "," in e for e in elements)


def outside_roundtrip_domains(fmt, obj):
    if fmt == "treeinfo":
        if separator_in_list_element(obj):
            return "separator-in-list-element"     # '[tree] arch = a,b': a legal free-form string that the INI encoding joins into comma lists
        if any(v.type == "addon" for v in obj.variants.variants.values()):
            return "top-level-addon"               # written as [addon-X], looked up as [variant-X]: C04 keeps addons below a parent
    if fmt == "images":
        for variant in obj.images:
            for arch in obj.images[variant]:
                paths = [img.path for img in obj.images[variant][arch]]
                if len(paths) != len(set(paths)):
                    return "same-path-twice-in-a-cell"   # C02/C08 quantify over distinct paths per cell (records are ordered by path only)
    return None


def meta_case(case):
    fmt = case["format"]
    text = must("dump-valid-object", valid_text, fmt, case["desc"])
    mutated = mutate(fmt, text, case["where"], case["how"], case["other"])
    cls = loader(fmt)
    obj = cls()
    try:
        obj.loads(mutated)
    except Exception:  # noqa  (any exception is a rejection, RecursionError for a self-referential legacy file included)
        return {"nontrivial": True, "labels": [fmt, "rejected"]}
    # the load succeeded: everything obtained from it must satisfy what writing enforces
    first = must("loaded-object-cannot-be-written[%s]" % fmt, (lambda: tim.dump_text(obj, None)) if fmt == "treeinfo" else obj.dumps)
    outside = outside_roundtrip_domains(fmt, obj)
    if outside:
        # the statement ends at "can be written"; what a second cycle yields is promised by C02/C04/C08 for their own domains
        # only, and this object is outside them
        return {"nontrivial": True, "labels": [fmt, "load-succeeded", outside]}
    again = cls()
    must("written-document-cannot-be-reloaded[%s]" % fmt, again.loads, first)
    second = must("reloaded-object-cannot-be-written[%s]" % fmt, (lambda: tim.dump_text(again, None)) if fmt == "treeinfo" else again.dumps)
    check(first == second, "second-dump-differs[%s]" % fmt, lambda: "after loading a mutated document: %s" % c08_diff(first, second))
    return {"nontrivial": True, "labels": [fmt, "load-succeeded"]}


def c08_diff(a, b):
    la, lb = a.split("\n"), b.split("\n")
    for i, (x, y) in enumerate(zip(la, lb)):
        if x != y:
            return "line %d: %r vs %r" % (i + 1, x, y)
    return "length %d vs %d lines" % (len(la), len(lb))


def text_case(case):
    """the metamorphic oracle on a raw document text (replay of a coverage-guided finding)"""
    fmt, text = case["format"], case["text"]
    cls = loader(fmt)
    obj = cls()
    try:
        obj.loads(text)
    except Exception:  # noqa  (any exception is a rejection, RecursionError for a self-referential legacy file included)
        return {"nontrivial": True, "labels": [fmt, "rejected"]}
    dump = (lambda o: tim.dump_text(o, None)) if fmt == "treeinfo" else (lambda o: o.dumps())
    first = must("loaded-object-cannot-be-written[%s]" % fmt, dump, obj)
    again = cls()
    must("written-document-cannot-be-reloaded[%s]" % fmt, again.loads, first)
    second = must("reloaded-object-cannot-be-written[%s]" % fmt, dump, again)
    check(first == second, "second-dump-differs[%s]" % fmt, lambda: c08_diff(first, second))
    return {"nontrivial": True, "labels": [fmt, "load-succeeded"]}


def atheris_campaign(ctx, runs):
    """thorough tier: one libFuzzer process per worker, coverage-guided over the readers (pbt/fuzz_c07.py)"""
    import os
    import shutil
    import subprocess
    import sys
    import tempfile
    from pbt.runner import VERIF_DIR, REPO
    sub = ctx.sub("atheris")
    try:
        sys.path.insert(0, os.path.join(VERIF_DIR, ".deps"))
        import atheris  # noqa
    except Exception as exc:  # noqa
        if ctx.shard == 0:
            sub.notes.append("atheris not importable here (%s): coverage-guided campaign skipped" % exc)
        return
    out = tempfile.mkdtemp(prefix="c07-fuzz-")
    try:
        os.mkdir(os.path.join(out, "corpus"))
        env = dict(os.environ, PYTHONPATH=VERIF_DIR + os.pathsep + os.path.join(VERIF_DIR, ".deps"), VERIF_REPO=REPO, PYTHONHASHSEED="0")
        seed = (ctx.seed * 1000 + ctx.shard) % (2 ** 31 - 1) + 1
        proc = subprocess.run([sys.executable, "-m", "pbt.fuzz_c07", out, "-runs=%d" % runs, "-seed=%d" % seed, "-max_len=64", os.path.join(out, "corpus")],
                              capture_output=True, text=True, env=env, cwd=VERIF_DIR, timeout=7200)
        stats = {"execs": 0, "loaded": 0}
        if os.path.exists(os.path.join(out, "stats.json")):
            stats = json.load(open(os.path.join(out, "stats.json")))
        sub.evaluations += stats["execs"]
        sub.labels["load-succeeded"] += stats["loaded"]
        cov = [l for l in proc.stderr.split("\n") if " cov: " in l]
        corpus = sorted(os.listdir(os.path.join(out, "corpus")))
        for name in corpus:
            sub.nontrivial.add(name[:16])          # libFuzzer keeps an input only when it reached new coverage
        sub.labels["nontrivial"] += len(corpus)
        if cov and ctx.shard == 0:
            sub.notes.append("libFuzzer -runs=%d -seed=%d per worker; last status: %s" % (runs, seed, cov[-1].strip()[:120]))
            sub.samples.append({"corpus_inputs_hex": [open(os.path.join(out, "corpus", n), "rb").read().hex() for n in corpus[:3]]})
        if os.path.exists(os.path.join(out, "violation.json")):
            v = json.load(open(os.path.join(out, "violation.json")))
            ctx._violation("atheris", {"format": v["format"], "text": v["text"]}, Violation(v["bucket"] + "[%s]" % v["format"], v["message"]))
        elif proc.returncode != 0:
            raise HarnessError("atheris campaign failed (exit %d):\n%s" % (proc.returncode, proc.stderr[-1500:]))
    finally:
        shutil.rmtree(out, ignore_errors=True)


def run(ctx):
    ctx.forall("corruption", case_strategy, corruption_case, ctx.n(2400, 64000))
    ctx.sweep("neighbourhood-sweep", sweep_cases(), sweep_case, exhaustive=True, stop_after=8)
    ctx.forall("metamorphic", meta_strategy, meta_case, ctx.n(4000, 64000))
    if ctx.thorough and ctx.wanted("atheris"):
        atheris_campaign(ctx, 40000)


REPLAY = {"corruption": corruption_case, "neighbourhood-sweep": sweep_case, "metamorphic": meta_case, "atheris": text_case}
