"""C13 RPM name-epoch:version-release.arch strings are parsed back to their parts."""
import itertools

from hypothesis import strategies as st

from pbt import gen
from pbt.runner import must, check

PROPERTY = "C13"
LEVEL = "exploration"
RULE = ("N-[E:]V-R.A strings assembled from generated parts (name = 1-4 dash-separated segments over [A-Za-z0-9._+] incl. "
        "pure-digit segments, epoch absent / any non-negative integer incl. zero-padded spellings, version and release "
        "over [A-Za-z0-9._+~^], every arch of the architecture table, optional directory prefix, optional '.rpm'); "
        "oracle = the parts the string was built from, canonical re-format/parse fixed point, and the key Rpms.add files "
        "the package under; plus a bounded-exhaustive sweep over a small alphabet. Non-trivial = name has >=2 segments or "
        "a digit-only segment, or an epoch or a directory prefix is present; distinct = SHA-1 of the parts. Related spellings of the same build (other / no epoch, other prefix, other suffix) are parsed back to back: each answer depends on its own string only.")
ASSUMPTIONS = ["the architecture table copied into pbt/gen.py equals the documented RPM_ARCHES (checked at start of run)"]
FLOORS = {"distinct_nontrivial": 500}

_seg = st.one_of(st.from_regex(r"[A-Za-z0-9._+]{1,6}", fullmatch=True), st.from_regex(r"[0-9]{1,4}", fullmatch=True),
                 st.sampled_from(["glibc", "devel", "python3", "x86_64", "rpm", "src", "1", "0", "c++", "lib.rpm", "noarch"]))
_name = st.lists(_seg, min_size=1, max_size=4).map("-".join)
_vr = st.one_of(st.from_regex(r"[A-Za-z0-9._+~^]{1,8}", fullmatch=True),
                st.sampled_from(["2.18", "11.fc20", "1.el7_9", "0.1.rc9.el7cp", "1~beta^git1", "1.rpm", "20200101", "1.x86_64", "7"]))
_epoch = st.one_of(st.none(), st.none(), st.integers(0, 3), st.integers(0, 10 ** 12))
_prefix = st.one_of(st.just(""), st.just(""), st.sampled_from(["https://example.com/repo/os/Packages/g/", "host:/srv/compose/", "2020-01-01T10:00/", "file:///mnt/x/", "a:b-1:2/"]),
                    st.sampled_from(["Packages/", "/mnt/compose/Server/x86_64/os/Packages/g/", "a-b/c.d-1.2/",
                                                               "./", "../x/", "/", "Server/x86_64/os/Packages/g/glibc-2.18-11.fc20.x86_64.rpm/"]),
                    st.lists(st.from_regex(r"[A-Za-z0-9._+-]{1,6}", fullmatch=True), min_size=1, max_size=3).map(lambda p: "/".join(p) + "/"))

case_strategy = st.fixed_dictionaries({
    "name": _name, "epoch": _epoch, "pad": st.sampled_from([0, 0, 0, 1, 3]), "version": _vr, "release": _vr,
    "arch": st.one_of(st.sampled_from(gen.RPM_ARCHES), st.sampled_from(["x86_64", "noarch", "src", "armhfp", "i686"])),
    "prefix": _prefix, "rpm": st.booleans(),
})


def assemble(c):
    s = c["prefix"] + c["name"] + "-"
    if c["epoch"] is not None:
        s += "0" * c.get("pad", 0) + str(c["epoch"]) + ":"
    s += "%s-%s.%s" % (c["version"], c["release"], c["arch"])
    if c["rpm"]:
        s += ".rpm"
    return s


def nontrivial(c):
    segs = c["name"].split("-")
    return len(segs) >= 2 or any(s.isdigit() for s in segs) or c["epoch"] is not None or bool(c["prefix"])


def parse_case(c):
    from productmd.common import parse_nvra
    s = assemble(c)
    got = must("parse", parse_nvra, s)
    want = {"name": c["name"], "epoch": c["epoch"] or 0, "version": c["version"], "release": c["release"], "arch": c["arch"]}
    check(got == want, "parts-differ", lambda: "parse_nvra(%r) = %r, built from %r" % (s, got, want))
    check(type(got["epoch"]) is int, "epoch-not-int", "epoch is %r" % type(got["epoch"]))
    canonical = "%(name)s-%(epoch)s:%(version)s-%(release)s.%(arch)s" % got
    again = must("parse-canonical", parse_nvra, canonical)
    check(again == want, "not-a-fixed-point", lambda: "parse_nvra(%r) = %r, expected %r" % (canonical, again, want))
    # the caller's string is not consumed/changed and repeated parsing is stable
    check(must("parse-again", parse_nvra, s) == want, "unstable", "second parse of the same string differs")
    # related spellings of the same build parsed back to back (other epoch, no epoch, other prefix / suffix): each answer
    # depends on its own string only
    for epoch, prefix, rpm in ((None, "", False), (7, "", True), (None, "d/", True), (c["epoch"], c["prefix"], not c["rpm"]), (None, "", False)):
        other = dict(c, epoch=epoch, prefix=prefix, rpm=rpm, pad=0)
        got_o = must("parse-related", parse_nvra, assemble(other))
        want_o = dict(want, epoch=epoch or 0)
        check(got_o == want_o, "answer-depends-on-earlier-call", lambda: "parse_nvra(%r) = %r after parsing %r" % (assemble(other), got_o, s))
        got_o["name"] = "poison"
    labels = ["rpm-suffix" if c["rpm"] else "bare", "epoch" if c["epoch"] is not None else "no-epoch"]
    if c["prefix"]:
        labels.append("prefix")
    return {"nontrivial": nontrivial(c), "labels": labels}


def rpms_key_case(c):
    """the key Rpms.add produces equals the canonical form (needs an explicit epoch: add refuses names without one)"""
    from productmd.rpms import Rpms
    c = dict(c)
    if c["epoch"] is None:
        c["epoch"] = 0
    s = assemble(c)
    canonical = "%s-%d:%s-%s.%s" % (c["name"], c["epoch"], c["version"], c["release"], c["arch"])
    source = c["arch"] in ("src", "nosrc")
    srpm = dict(c, arch="src", name=c["name"].split("-")[0] or "x", prefix="", rpm=True)
    srpm_text = assemble(srpm)
    srpm_canonical = "%s-%d:%s-%s.src" % (srpm["name"], srpm["epoch"], c["version"], c["release"])
    r = Rpms()
    if source:
        must("add-source", r.add, "V", "x86_64", s, "p/x.rpm", None, "source")
        want = {"V": {"x86_64": {canonical: {canonical: {"sigkey": None, "path": "p/x.rpm", "category": "source"}}}}}
    else:
        must("add-binary", r.add, "V", "x86_64", s, "p/x.rpm", None, "binary", srpm_text)
        want = {"V": {"x86_64": {srpm_canonical: {canonical: {"sigkey": None, "path": "p/x.rpm", "category": "binary"}}}}}
    check(r.rpms == want, "rpms-key-not-canonical", lambda: "Rpms.add(%r) filed %r, expected %r" % (s, r.rpms, want))
    return {"nontrivial": nontrivial(c), "labels": ["source" if source else "binary"]}


def sweep_cases(thorough):
    names = []
    alpha = "a1.-" if not thorough else "a1.-+"
    for n in range(1, 4):
        for t in itertools.product(alpha, repeat=n):
            s = "".join(t)
            if all(s.split("-")):
                names.append(s)
    vrs = ["".join(t) for n in (1, 2) for t in itertools.product("a1.~" if thorough else "a1.", repeat=n)]
    epochs = [None, 0, 7, 10] if thorough else [None, 0, 12]
    arches = ["x86_64", "src", "armhfp"] if thorough else ["x86_64", "src"]
    prefixes = ["", "a-1/", "/x.y-1-2.z/"] if thorough else ["", "a-1.b/"]
    for name, epoch, v, r, arch, prefix, rpm in itertools.product(names, epochs, vrs, vrs, arches, prefixes, [False, True]):
        yield {"name": name, "epoch": epoch, "pad": 0, "version": v, "release": r, "arch": arch, "prefix": prefix, "rpm": rpm}


def sweep_one(c):
    from productmd.common import parse_nvra
    s = assemble(c)
    got = must("parse", parse_nvra, s)
    want = {"name": c["name"], "epoch": c["epoch"] or 0, "version": c["version"], "release": c["release"], "arch": c["arch"]}
    check(got == want, "parts-differ", lambda: "parse_nvra(%r) = %r, built from %r" % (s, got, want))
    return {"nontrivial": nontrivial(c)}


def arch_table_case(arch):
    """every architecture of the library's own table, in all four spellings"""
    from productmd.common import parse_nvra
    for prefix, rpm, epoch in itertools.product(["", "d-1/e.f/"], [False, True], [None, 3]):
        c = {"name": "glibc-devel", "epoch": epoch, "pad": 0, "version": "2.18", "release": "11.fc20", "arch": arch, "prefix": prefix, "rpm": rpm}
        got = must("parse", parse_nvra, assemble(c))
        check(got["arch"] == arch and got["name"] == "glibc-devel" and got["release"] == "11.fc20", "arch-table",
              lambda: "parse_nvra(%r) = %r" % (assemble(c), got))
    return {"nontrivial": True}


def filesystem_case(c):
    """parsing a name is a function of the string: what the file system holds at that path (nothing, a file, a link into a
    pool with other names) has no say"""
    import os
    import shutil
    import tempfile
    from productmd.common import parse_nvra
    c = dict(c, prefix=c["prefix"] if c["prefix"] and not c["prefix"].startswith("/") and ":" not in c["prefix"] and ".." not in c["prefix"] else "Packages/g/")
    s = assemble(c)
    want = {"name": c["name"], "epoch": c["epoch"] or 0, "version": c["version"], "release": c["release"], "arch": c["arch"]}
    tmp = tempfile.mkdtemp(prefix="c13-")
    here = os.getcwd()
    try:
        os.chdir(tmp)
        os.makedirs("pool")
        with open("pool/other-name-9.9-9.el9.noarch.rpm", "w") as fo:
            fo.write("x")
        os.makedirs(os.path.dirname(os.path.normpath(s)) or ".", exist_ok=True)
        for kind in ("absent", "file", "link"):
            target = os.path.normpath(s)
            if kind == "file":
                with open(target, "w") as fo:
                    fo.write("x")
            elif kind == "link":
                os.unlink(target)
                os.symlink(os.path.relpath("pool/other-name-9.9-9.el9.noarch.rpm", os.path.dirname(target) or "."), target)
            for spelling in (s, os.path.join(tmp, os.path.normpath(s))):
                got = must("parse", parse_nvra, spelling)
                check(got == want, "answer-depends-on-file-system", lambda: "parse_nvra(%r) = %r with %s at that path, built from %r" % (spelling, got, kind, want))
    finally:
        os.chdir(here)
        shutil.rmtree(tmp, ignore_errors=True)
    return {"nontrivial": True, "labels": ["rpm-suffix" if c["rpm"] else "bare"]}


NEW_ARCHES = ["e2k", "riscv64gc", "wasm32", "loongarch32", "x86_64_v3", "arm64e"]


def extended_table_case(arch):
    """the architecture table is the library's public, mutable list (the builders' refusals name it): an architecture a site adds to it
    is an architecture of the table - parsed like the others, accepted by the builder under it"""
    import productmd.common
    from productmd.rpms import Rpms
    table = productmd.common.RPM_ARCHES
    table.append(arch)
    try:
        arch_table_case(arch)
        c = {"name": "glibc-devel", "epoch": 1, "pad": 0, "version": "2.18", "release": "11.fc20", "arch": arch, "prefix": "Packages/g/", "rpm": True}
        r = Rpms()
        must("add-under-added-arch", r.add, "V", arch, assemble(c), "p/x.rpm", None, "binary", "glibc-1:2.18-11.fc20.src.rpm")
        want = {"V": {arch: {"glibc-1:2.18-11.fc20.src": {"glibc-devel-1:2.18-11.fc20.%s" % arch: {"sigkey": None, "path": "p/x.rpm", "category": "binary"}}}}}
        check(r.rpms == want, "rpms-key-not-canonical", lambda: "Rpms.add(%r) filed %r, expected %r" % (assemble(c), r.rpms, want))
    finally:
        table.remove(arch)
    return {"nontrivial": True}


def run(ctx):
    import productmd.common
    if ctx.shard == 0 and sorted(productmd.common.RPM_ARCHES) != sorted(gen.RPM_ARCHES):
        ctx.sub("arch-table").notes.append("library architecture table differs from the documented copy: %s" % sorted(
            set(productmd.common.RPM_ARCHES) ^ set(gen.RPM_ARCHES)))
    ctx.forall("parse", case_strategy, parse_case, ctx.n(6000, 320000))
    ctx.forall("rpms-key", case_strategy, rpms_key_case, ctx.n(1500, 60000))
    ctx.sweep("arch-table", sorted(set(productmd.common.RPM_ARCHES) | set(gen.RPM_ARCHES)), arch_table_case, exhaustive=True)
    ctx.forall("file-system", case_strategy, filesystem_case, ctx.n(240, 4800))
    ctx.sweep("arch-table-extended", NEW_ARCHES, extended_table_case, exhaustive=True)
    ctx.sweep("small-alphabet-sweep", sweep_cases(ctx.thorough), sweep_one, exhaustive=True)


REPLAY = {"parse": parse_case, "rpms-key": rpms_key_case, "small-alphabet-sweep": sweep_one, "arch-table": arch_table_case, "arch-table-extended": extended_table_case, "file-system": filesystem_case}
