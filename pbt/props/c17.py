"""C17 The legacy [general] section mirrors the authoritative sections."""
from hypothesis import strategies as st

from pbt import ti as tim
from pbt.props.c01 import diff
from pbt.runner import must, check

PROPERTY = "C17"
LEVEL = "exploration"
RULE = ("Generated trees as in C04 plus float timestamps, with every choice of main variant (none / each top-level UID), "
        "binary and src trees and every subset of packages/repository/source_* paths on the main variant. The dumped file "
        "is read with stdlib RawConfigParser: [general] must equal the reference (family/version/name/arch/platforms/"
        "timestamp/variants/variant/packagedir/repository incl. src fallbacks and absence) AND agree with the [release], "
        "[tree] and [variant-*] sections of the same file. Metamorphic part: only the compatibility sections are kept and "
        "loaded as a pre-productmd file; name, version, arch, timestamp, main variant and its packages/repository must "
        "match the description. Non-trivial = >= 2 top-level variants or explicit main variant or src tree or float "
        "timestamp; distinct = SHA-1 of the description. The same object is dumped again with other choices of main variant: each file follows its own request only. [general] of a tree that was changed after its first dump (one top-level variant replaced, same count) is compared with the reference of the changed description. Sub-check id-keyed-top-level: trees whose dashed top-level variants are held under their id (the class of KF-C04): what [general] says about the main variant and its paths follows the name it was requested or chosen by.")
ASSUMPTIONS = ["stdlib configparser.RawConfigParser is a correct, independent INI reader",
               "family names that trigger the documented RHEL/Fedora/CentOS heuristics and versions containing '-'/'_' are kept out of the metamorphic part only"]
FLOORS = {"general": 400, "general:src-tree": 60, "general:explicit-main": 100, "general:float-timestamp": 60, "legacy-view": 150}

_ts = st.one_of(st.integers(1, 2 ** 31), st.integers(-5, -1), st.sampled_from([2 ** 53 + 1, 1758844800123456789, 2 ** 63 - 1, -(2 ** 53) - 1]), st.integers(2 ** 53, 2 ** 70), st.integers(-(2 ** 70), -(2 ** 53)), st.floats(min_value=-1e6, max_value=1e12, allow_nan=False).filter(lambda f: f != 0.0),
                st.sampled_from([1386857206.61, 1410862874.59, 0.5, -0.5, 1e22, 2.0 ** 53 + 2]))
general_strategy = st.fixed_dictionaries({"desc": tim.tree_desc(max_depth=2, timestamps=_ts), "use_main": st.booleans(), "plan": st.sampled_from([0, 1, 2])})


def _whole(text):
    """integer part of a decimal number written as text, exact for integers of any size"""
    try:
        return int(text)
    except ValueError:
        return int(float(text))


def general_case(case):
    desc = case["desc"]
    main = desc["main_variant"] if case["use_main"] else None
    obj = must("build", tim.build_ti, desc, case.get("plan", 0))
    text = must("dump-valid-tree", tim.dump_text, obj, main)
    ini = must("stdlib-read", tim.read_ini, text)
    check("general" in ini, "no-general-section", "the file has no [general] section")
    want = tim.expected_general(desc, main)
    d = diff(want, ini["general"])
    check(d is None, "general-differs-from-reference", lambda: "[general] reference vs file: %s" % d)
    # agreement with the authoritative sections of the very same file
    g, rel, tree = ini["general"], ini.get("release", {}), ini.get("tree", {})
    check(g.get("family") == rel.get("name") and g.get("version") == rel.get("version")
          and g.get("name") == "%s %s" % (rel.get("name"), rel.get("version")), "general-vs-release", lambda: "general %r vs release %r" % (g, rel))
    check(g.get("arch") == tree.get("arch") and g.get("platforms") == tree.get("platforms")
          and g.get("arch") in g.get("platforms", "").split(","), "general-vs-tree", lambda: "general %r vs tree %r" % (g, tree))
    check(g.get("timestamp") == str(_whole(tree.get("build_timestamp"))), "general-timestamp", lambda: "timestamp %r vs build_timestamp %r" % (
        g.get("timestamp"), tree.get("build_timestamp")))
    tops = sorted(tree.get("variants", "").split(","))
    check(g.get("variant") == (main if main is not None else tops[0]), "main-variant", lambda: "variant %r, requested %r, top-level %r" % (g.get("variant"), main, tops))
    sec = ini.get("variant-%s" % g["variant"], {})
    src = tree.get("arch") == "src"
    for key, bin_kind, src_kind in (("packagedir", "packages", "source_packages"), ("repository", "repository", "source_repository")):
        exp = sec.get(bin_kind)
        if exp is None and src:
            exp = sec.get(src_kind)
        check(g.get(key) == exp, "general-vs-variant-section", lambda: "[general] %s = %r but the main variant section says %r" % (key, g.get(key), exp))
    # the same object written again with other choices of main variant: each file follows ITS request only
    uids = sorted(n["uid"] for n in desc["variants"])
    for other in [uids[-1], None, uids[0], None][case.get("plan", 0) % 2:][:3]:
        text_o = must("dump-valid-tree-again", tim.dump_text, obj, other)
        d = diff(tim.expected_general(desc, other), must("stdlib-read", tim.read_ini, text_o).get("general"))
        check(d is None, "general-depends-on-earlier-dump", lambda: "same object dumped again with main_variant=%r after main_variant=%r: %s" % (other, main, d))
    # ... and so does an object obtained by LOADING that file: what the file's [general] said is not a request
    dashed = any(n["uid"] != n["id"] for n in desc["variants"])
    if abs(desc["tree"]["build_timestamp"]) >= 1:
        from productmd.treeinfo import TreeInfo
        loaded = TreeInfo()
        must("loads", loaded.loads, text)
        for other in (None, uids[-1]):
            text_l = must("dump-loaded-tree", tim.dump_text, loaded, other)
            want_l = tim.expected_general(desc, other)
            want_l["timestamp"] = str(int(desc["tree"]["build_timestamp"]))
            d = diff(want_l, must("stdlib-read", tim.read_ini, text_l).get("general"))
            check(d is None, "general-of-loaded-tree", lambda: "tree loaded from a file written with main_variant=%r, dumped with main_variant=%r: %s" % (main, other, d))
    # ... and the object itself after it was changed: [general] follows what the object holds NOW
    desc2 = must("modify-existing-tree", tim.modify_ti, desc, obj, case.get("plan", 0))
    for other in (None, desc2["main_variant"]):
        text_c = must("dump-changed-tree", tim.dump_text, obj, other)
        d = diff(tim.expected_general(desc2, other), must("stdlib-read", tim.read_ini, text_c).get("general"))
        check(d is None, "general-of-changed-tree", lambda: "tree written, changed in place and written again with main_variant=%r: %s" % (other, d))
    labels = tim.labels(desc) + (["explicit-main"] if main is not None else []) + (["float-timestamp"] if isinstance(desc["tree"]["build_timestamp"], float) else [])
    mp = [n for n in desc["variants"] if n["uid"] == g["variant"]][0]["paths"]
    labels.append("main-paths:" + "".join(k[0] if k in mp else "-" for k in ("packages", "repository", "source_packages", "source_repository")))
    return {"nontrivial": len(desc["variants"]) >= 2 or main is not None or src or isinstance(desc["tree"]["build_timestamp"], float), "labels": labels}


def id_keyed_case(case):
    """trees whose dashed top-level variants were added with the plain call of the docstrings and are therefore held under their
    ID (the class of known finding KF-C04, which is about the second dump; what [general] says about the MAIN variant is
    well defined there too: the name it was requested or chosen by, and that variant's paths)"""
    desc = dict(case["desc"], top_level_keys="id")
    ids = sorted(n["id"] for n in desc["variants"])
    if len(set(ids)) < len(ids) or all(n["id"] == n["uid"] for n in desc["variants"]):
        return {"nontrivial": False, "labels": ["no-dashed-top-level"]}
    obj = must("build", tim.build_ti, desc, case.get("plan", 0))
    for main in [None] + ids:
        text = must("dump-valid-tree", tim.dump_text, obj, main)
        g = must("stdlib-read", tim.read_ini, text).get("general", {})
        want = tim.expected_general(desc, main)
        for key in ("variant", "packagedir", "repository", "family", "version", "name", "arch", "platforms", "timestamp"):
            check(g.get(key) == want.get(key), "general-differs-from-reference", lambda: "top-level variants held under their ids, main_variant=%r: [general] %s = %r, reference says %r" % (
                main, key, g.get(key), want.get(key)))
    # the same trees asked for their main variant by UID, written, and written again after that variant was REPLACED by another
    # object of the same UID with other paths (del + add, the way a caller corrects a variant)
    import productmd.treeinfo as t
    dashed = [n for n in desc["variants"] if n["id"] != n["uid"]]
    node = dashed[len(ids) % len(dashed)]
    for act in (0, 1):
        text = must("dump-valid-tree", tim.dump_text, obj, node["uid"])
        g = must("stdlib-read", tim.read_ini, text).get("general", {})
        want = dict(tim.expected_general(desc, node["id"]), variant=node["uid"])
        for key in ("variant", "packagedir", "repository"):
            check(g.get(key) == want.get(key), "general-differs-from-reference", lambda: "top-level variants held under their ids, main variant requested by its UID %r%s: [general] %s = %r, reference says %r" % (
                node["uid"], " (after that variant was replaced by a new object)" if act else "", key, g.get(key), want.get(key)))
        if act == 0:
            del obj.variants.variants[node["id"]]
            node = dict(node, paths=dict(node["paths"], packages="replaced/Packages", repository="replaced/repo"), children=[])
            desc = dict(desc, variants=[node if n["uid"] == node["uid"] else n for n in desc["variants"]])
            v = t.Variant(obj)
            v.id, v.uid, v.name, v.type = node["id"], node["uid"], node["name"], node["type"]
            for k, val in node["paths"].items():
                setattr(v.paths, k, val)
            must("add-replacement", obj.variants.add, v)
    return {"nontrivial": True, "labels": ["id-keyed-dashed-top-level"]}


COMPAT = ("general", "stage2", "checksums")


def _plain_path(p):
    return p is None or (p and not p.endswith("/") and not p.endswith("/repodata") and p != "repodata" and not p.startswith("/"))


def _legacy_ok(desc):
    v = desc["release"]["version"]
    if "-" in v or "_" in v:
        return False
    if abs(desc["tree"]["build_timestamp"]) < 1:
        return False        # truncates to 0, which the library's readers refuse as "blank" (not part of this property)
    return all(_plain_path(n["paths"].get(k)) for n in desc["variants"] for k in ("packages", "repository", "source_packages", "source_repository"))


legacy_strategy = st.fixed_dictionaries({"desc": tim.tree_desc(max_depth=1, family_filter=tim.plain_family, timestamps=_ts).filter(_legacy_ok),
                                          "use_main": st.booleans()})


def legacy_case(case):
    from productmd.treeinfo import TreeInfo
    desc = case["desc"]
    main = desc["main_variant"] if case["use_main"] else None
    main_uid = main if main is not None else sorted(n["uid"] for n in desc["variants"])[0]
    if "-" in main_uid:
        # the library's own pre-productmd reader cannot guess the type of a dashed variant without its section
        return {"nontrivial": False, "labels": ["skipped-dashed-main-variant"]}
    obj = must("build", tim.build_ti, desc, 0)
    text = must("dump-valid-tree", tim.dump_text, obj, main)
    # keep only the compatibility sections
    kept, keep = [], False
    for line in text.split("\n"):
        if line.startswith("["):
            name = line[1:line.index("]")]
            keep = name in COMPAT or name.startswith("images-")
        if keep:
            kept.append(line)
    old = TreeInfo()
    must("load-compat-sections", old.loads, "\n".join(kept) + "\n")
    r, t = desc["release"], desc["tree"]
    node = [n for n in desc["variants"] if n["uid"] == main_uid][0]
    check(old.release.name == r["name"] and old.release.version == r["version"], "legacy-release", lambda: "pre-productmd reader sees release %r %r, tree is %r %r" % (
        old.release.name, old.release.version, r["name"], r["version"]))
    check(old.tree.arch == t["arch"] and old.tree.build_timestamp == int(t["build_timestamp"]), "legacy-tree", lambda: "arch/timestamp %r/%r vs %r/%r" % (
        old.tree.arch, old.tree.build_timestamp, t["arch"], int(t["build_timestamp"])))
    want_platforms = sorted(set(t["platforms"]) | set([t["arch"]]) | set(desc["images"]))
    check(sorted(old.tree.platforms) == want_platforms, "legacy-platforms", lambda: "pre-productmd reader sees platforms %r, the tree has %r" % (sorted(old.tree.platforms), want_platforms))
    uids = sorted(v.uid for v in old.variants.variants.values())
    check(uids == [main_uid], "legacy-main-variant", lambda: "pre-productmd reader sees variants %r, main variant is %r" % (uids, main_uid))
    v = list(old.variants.variants.values())[0]
    src = t["arch"] == "src"
    want_pk = node["paths"].get("packages")
    want_repo = node["paths"].get("repository")
    if src:
        want_pk = want_pk if want_pk is not None else node["paths"].get("source_packages")
        want_repo = want_repo if want_repo is not None else node["paths"].get("source_repository")
    got_pk = v.paths.source_packages if src else v.paths.packages
    got_repo = v.paths.source_repository if src else v.paths.repository
    if want_pk is not None:
        check(got_pk == want_pk, "legacy-packages", lambda: "pre-productmd reader sees packages %r, main variant has %r" % (got_pk, want_pk))
    if want_repo is not None:
        check(got_repo == want_repo, "legacy-repository", lambda: "pre-productmd reader sees repository %r, main variant has %r" % (got_repo, want_repo))
    check(old.images.images == {p: dict(tbl) for p, tbl in desc["images"].items()}, "legacy-images", "image tables differ in the compatibility view")
    return {"nontrivial": True, "labels": (["src-tree"] if src else []) + (["explicit-main"] if main is not None else [])}


def run(ctx):
    ctx.forall("general", general_strategy, general_case, ctx.n(1600, 48000))
    ctx.forall("legacy-view", legacy_strategy, legacy_case, ctx.n(800, 24000))
    ctx.forall("id-keyed-top-level", general_strategy, id_keyed_case, ctx.n(800, 16000))


REPLAY = {"id-keyed-top-level": id_keyed_case, "general": general_case, "legacy-view": legacy_case}
