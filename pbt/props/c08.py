"""C08 Serialisation is canonical: output depends on content only."""
import copy
import hashlib
import json
import os
import subprocess
import sys
import tempfile

from hypothesis import strategies as st

from pbt import ci as cim, im as imm, ti as tim, manifests as mf
from pbt.props.c01 import diff as c01_diff
from pbt.runner import must, check, Violation, HarnessError, VERIF_DIR, REPO

PROPERTY = "C08"
LEVEL = "exploration"
RULE = ("For generated valid contents of composeinfo, images, rpms, modules, extra_files and treeinfo plus a permutation plan "
        "(order of variants at every level, arches, path assignments, images, RPM and module adds with distinct keys, "
        "platforms, checksum adds, image-table entries, whole sections): (in-process) dumps() bytes must be identical across "
        "3 construction orders and 1-3 repeated dumps, JSON text must equal json.dumps(json.loads(text), indent=4, "
        "sort_keys=True, separators=(',', ': ')), treeinfo text must have sections and options in sorted order (line "
        "scanner); (cross-process) batches of the generated (content, plan) pairs are rebuilt in child interpreters started "
        "with PYTHONHASHSEED in {0,1,2,3,2^31, ...} and the SHA-256 of every dump must agree with the parent. Caller-ordered "
        "lists (extra-file entries, a module's RPM list, additional_variants) keep their order. Non-trivial = the plan is not "
        "the identity and the content has >= 2 unordered siblings somewhere; distinct = SHA-1 of content+plan. An object that was dumped, changed in place and dumped again must give the bytes of a fresh object with the same content; treeinfo dumps with every other main_variant happen between two dumps.")
ASSUMPTIONS = ["a finite set of hash seeds is explored", "images in one cell have distinct paths (the sort key the library documents)"]
FLOORS = {"distinct_nontrivial": 400, "hash-seeds": 100}

HASH_SEEDS_QUICK = ["0", "1", "2", "3"]
HASH_SEEDS_THOROUGH = ["0", "1", "2", "3", "4", "5", "7", "11", "42", "1000", "65535", "2147483648", "4294967295", "123456789", "99", "31337"]


def _dedupe_rpm_ops(ops):
    model, out, seen = {}, [], set()
    for op in ops:
        trial = copy.deepcopy(model)
        if mf.rpm_model_apply(trial, op):
            key = (op["variant"], op["arch"], mf.nevra_canonical(op["nevra"]), mf.nevra_canonical(op["srpm"]) if op["srpm"] else None)
            if key not in seen:
                seen.add(key)
                out.append(op)
                model = trial
    return out


def _dedupe_module_ops(case):
    """groups of adds per (variant, arch, uid): the order INSIDE a group is content (RPM lists are extended in call order,
    the last koji tag wins), the order of the groups is free"""
    groups = {}
    for op in case["ops"]:
        if mf.module_model_apply({}, op, case["lists"]):
            groups.setdefault((op["variant"] or "", op["arch"], ":".join(op["uid_parts"])), []).append(op)
    return [groups[k] for k in sorted(groups)]


def _permute(items, plan):
    import random
    items = list(items)
    if plan:
        random.Random(plan).shuffle(items)
    return items


def dump_of(fmt, desc, plan):
    if fmt == "composeinfo":
        return cim.build_ci(desc, plan).dumps()
    if fmt == "images":
        return imm.build_images(desc, plan).dumps()
    if fmt == "treeinfo":
        return tim.dump_text(tim.build_ti(desc, plan), desc.get("main_variant"))
    if fmt == "rpms":
        from productmd.rpms import Rpms
        obj = Rpms()
        mf.fill_compose(obj)
        for op in _permute(_dedupe_rpm_ops(desc["ops"]), plan):
            mf.rpm_call(obj, op)
        return obj.dumps()
    if fmt == "modules":
        from productmd.modules import Modules
        obj = Modules()
        mf.fill_compose(obj)
        caller = mf.ModuleCaller(desc["lists"])
        for group in _permute(_dedupe_module_ops(desc), plan):
            for op in group:
                caller.call(obj, op)
        return obj.dumps()
    if fmt == "extra_files":
        from productmd.extra_files import ExtraFiles
        obj = ExtraFiles()
        mf.fill_compose(obj)
        by_cell = {}
        for op in desc["ops"]:
            if mf.extra_model_apply({}, op):
                by_cell.setdefault((op["variant"], op["arch"]), []).append(op)
        # caller-ordered inside a cell; the order in which the cells are filled is free
        for cell in _permute(sorted(by_cell), plan):
            for op in by_cell[cell]:
                mf.extra_call(obj, op)
        return obj.dumps()
    raise HarnessError("unknown format %r" % fmt)


def siblings(fmt, desc):
    """does the content have >= 2 unordered siblings somewhere?"""
    if fmt == "composeinfo":
        nodes = list(cim.all_nodes(desc["variants"]))
        return len(desc["variants"]) >= 2 or any(len(n["children"]) >= 2 or len(n["arches"]) >= 2 or len(n["paths"]) >= 2 for n in nodes)
    if fmt == "images":
        cells = {}
        for e in imm.live(desc):
            for c in e["cells"]:
                cells[tuple(c)] = cells.get(tuple(c), 0) + 1
        return len(cells) >= 2 or any(n >= 2 for n in cells.values())
    if fmt == "treeinfo":
        return (len(desc["variants"]) >= 2 or any(len(n["children"]) >= 2 for n in tim.all_nodes(desc["variants"])) or len(desc["tree"]["platforms"]) >= 2
                or len(desc["checksums"]) >= 2 or any(len(t) >= 2 for t in desc["images"].values()))
    if fmt == "rpms":
        return len(_dedupe_rpm_ops(desc["ops"])) >= 2
    if fmt == "modules":
        return len(_dedupe_module_ops(desc)) >= 2
    return len(set((o["variant"], o["arch"]) for o in desc["ops"])) >= 2


def inprocess_case(case):
    fmt, desc = case["format"], case["desc"]
    first = must("dumps", dump_of, fmt, desc, 0)
    for plan in case["plans"]:
        other = must("dumps-other-order", dump_of, fmt, desc, plan)
        check(other == first, "bytes-depend-on-construction-order", lambda: "%s: plan %d gives different bytes: %s" % (fmt, plan, first_difference(first, other)))
    # repeated dumps of one object
    if fmt in ("composeinfo", "images", "treeinfo"):
        obj = {"composeinfo": cim.build_ci, "images": imm.build_images, "treeinfo": tim.build_ti}[fmt](desc, case["plans"][0])
        dump = (lambda: tim.dump_text(obj, desc.get("main_variant"))) if fmt == "treeinfo" else obj.dumps
        for i in range(case["repeat"]):
            again = must("repeated-dumps", dump)
            check(again == first, "bytes-depend-on-dump-count", lambda: "%s: dump #%d differs: %s" % (fmt, i + 1, first_difference(first, again)))
    if fmt in ("composeinfo", "images", "treeinfo"):
        # written, changed, written again: the bytes are those of a fresh object with the new content
        desc2 = must("modify-existing-object", {"composeinfo": cim.modify_ci, "images": imm.modify_images, "treeinfo": tim.modify_ti}[fmt], desc, obj)
        changed = must("dumps-after-change", (lambda: tim.dump_text(obj, desc2.get("main_variant"))) if fmt == "treeinfo" else obj.dumps)
        fresh = must("dumps-of-fresh-twin", dump_of, fmt, desc2, 0)
        check(changed == fresh, "bytes-depend-on-object-history", lambda: "%s: object dumped, changed and dumped again differs from a fresh object with the same content: %s" % (
            fmt, first_difference(fresh, changed)))
        obj = {"composeinfo": cim.build_ci, "images": imm.build_images, "treeinfo": tim.build_ti}[fmt](desc, case["plans"][0])
    if fmt == "treeinfo" and desc["variants"]:
        # the optional main_variant argument belongs to ONE dump: dumps with other arguments in between leave no trace
        plain = must("dumps", tim.dump_text, tim.build_ti(desc, 0), None)
        for uid in sorted(n["uid"] for n in desc["variants"]):
            must("dump-with-main-variant", tim.dump_text, obj, uid)
            after = must("dumps-after-main-variant-dump", tim.dump_text, obj, None)
            check(after == plain, "bytes-depend-on-earlier-dump", lambda: "treeinfo: dump without main_variant differs after a dump with main_variant=%r: %s" % (
                uid, first_difference(plain, after)))
        again = must("repeated-dumps", dump)
        check(again == first, "bytes-depend-on-earlier-dump", lambda: "treeinfo: dump differs after dumps with other main variants: %s" % first_difference(first, again))
    if fmt in ("modules", "extra_files"):
        # caller-ordered lists are content: a module's RPM list / the entries of a cell come out in the order they were given
        model = {}
        if fmt == "modules":
            for group in _dedupe_module_ops(desc):
                for op in group:
                    mf.module_model_apply(model, op, desc["lists"])
        else:
            for op in desc["ops"]:
                mf.extra_model_apply(model, op)
        got = json.loads(first)["payload"][fmt]
        check(got == model, "caller-ordered-list-reordered", lambda: "%s: payload differs from the reference model (caller-ordered lists must keep their order)" % fmt)
    if fmt == "images":
        # additional_variants is a caller-ordered list (content): the file lists them as given, whatever else happened to the manifest
        d = c01_diff(imm.expected_doc(desc), json.loads(first))
        check(d is None, "caller-ordered-list-reordered", lambda: "images: document differs from the reference document of the description: %s" % d)
    if fmt == "extra_files":
        # dump_for_tree is a dump too: it must not change what later dumps write
        import io
        from productmd.extra_files import ExtraFiles
        obj = ExtraFiles()
        mf.fill_compose(obj)
        for op in desc["ops"]:
            if mf.extra_model_apply({}, op):
                mf.extra_call(obj, op)
        before = must("dumps", obj.dumps)
        for variant in sorted(obj.extra_files):
            for arch in sorted(obj.extra_files[variant]):
                for entry in list(obj.extra_files[variant][arch])[:2]:
                    base = entry["file"].rsplit("/", 1)[0] if "/" in entry["file"] else entry["file"]
                    must("dump_for_tree", obj.dump_for_tree, io.StringIO(), variant, arch, base)
        after = must("dumps-after-tree-dumps", obj.dumps)
        check(after == before, "bytes-depend-on-earlier-tree-dump", lambda: "extra_files: dumps() differs after dump_for_tree calls: %s" % first_difference(before, after))
    if fmt == "treeinfo":
        order = tim.scan_order(first)
        names = [s for s, _ in order]
        check(names == sorted(names), "sections-not-sorted", lambda: "sections in file order: %r" % names)
        for sec, opts in order:
            check(opts == sorted(opts), "options-not-sorted", lambda: "[%s] options in file order: %r" % (sec, opts))
    else:
        canonical = json.dumps(json.loads(first), indent=4, sort_keys=True, separators=(",", ": "))
        check(first == canonical, "not-canonical-json", lambda: "%s: text differs from sort_keys/indent=4 re-dump: %s" % (fmt, first_difference(first, canonical)))
    nt = siblings(fmt, desc) and any(case["plans"])
    return {"nontrivial": nt, "labels": [fmt] + (["two-spellings-of-one-checksum-path"] if fmt == "treeinfo" and "two-spellings-of-one-checksum-path" in tim.labels(desc) else [])}


def first_difference(a, b):
    la, lb = a.split("\n"), b.split("\n")
    for i, (x, y) in enumerate(zip(la, lb)):
        if x != y:
            return "line %d: %r vs %r" % (i + 1, x, y)
    return "length %d vs %d lines" % (len(la), len(lb))


def children_hashes(batch, seeds):
    fd, path = tempfile.mkstemp(prefix="c08-", suffix=".json")
    try:
        with os.fdopen(fd, "w") as fo:
            json.dump(batch, fo)
        out = {}
        for hs in seeds:
            env = dict(os.environ, PYTHONHASHSEED=hs, PYTHONPATH=VERIF_DIR + os.pathsep + os.path.join(VERIF_DIR, ".deps"), VERIF_REPO=REPO, PYTHONDONTWRITEBYTECODE="1")
            proc = subprocess.run([sys.executable, "-m", "pbt.c08_child", path], capture_output=True, text=True, env=env, cwd=VERIF_DIR, timeout=3600)
            if proc.returncode != 0:
                raise HarnessError("C08 child failed (PYTHONHASHSEED=%s):\n%s" % (hs, proc.stderr[-2000:]))
            out[hs] = json.loads(proc.stdout)
        return out
    finally:
        os.unlink(path)


def hashseed_case(case):
    """single (format, desc, plan) against child interpreters -- used for replay and to pin a batch disagreement"""
    seeds = case.get("hash_seeds") or HASH_SEEDS_QUICK
    text = must("dumps", dump_of, case["format"], case["desc"], case["plan"])
    mine = hashlib.sha256(text.encode("utf-8")).hexdigest()
    res = children_hashes([case], seeds)
    for hs, hashes in res.items():
        check(hashes[0] == mine, "bytes-depend-on-hash-seed", "%s: PYTHONHASHSEED=%s gives %s, parent (seed 0) gives %s" % (case["format"], hs, hashes[0][:16], mine[:16]))
    return {"nontrivial": True}


_json_formats = {
    "composeinfo": cim.compose_desc(), "images": imm.images_desc(), "treeinfo": tim.tree_desc(),
    "rpms": mf.rpm_history(allow_breaks=False), "modules": mf.module_history(allow_breaks=False), "extra_files": mf.extra_history(allow_breaks=False),
}
case_strategy = st.sampled_from(["composeinfo", "composeinfo", "images", "images", "treeinfo", "treeinfo", "rpms", "modules", "extra_files"]).flatmap(
    lambda fmt: st.fixed_dictionaries({"format": st.just(fmt), "desc": _json_formats[fmt],
                                       "plans": st.lists(st.integers(1, 10 ** 6), min_size=2, max_size=2), "repeat": st.integers(1, 3)}))


def run(ctx):
    batch = []

    def collecting(case):
        info = inprocess_case(case)
        if len(batch) < (400 if ctx.thorough else 40):
            batch.append({"format": case["format"], "desc": case["desc"], "plan": case["plans"][0]})
        return info
    ctx.forall("construction-order", case_strategy, collecting, ctx.n(1000, 32000))

    # cross-process: same batch rebuilt under different hash seeds
    if not ctx.wanted("hash-seeds") or not batch:
        return
    sub = ctx.sub("hash-seeds")
    seeds = HASH_SEEDS_THOROUGH if ctx.thorough else HASH_SEEDS_QUICK
    mine = []
    for item in batch:
        mine.append(hashlib.sha256(dump_of(item["format"], item["desc"], item["plan"]).encode("utf-8")).hexdigest())
    res = children_hashes(batch, seeds)
    for i, item in enumerate(batch):
        sub.evaluations += len(seeds)
        bad = [hs for hs in seeds if res[hs][i] != mine[i]]
        if bad:
            ctx._violation("hash-seeds", dict(item, hash_seeds=bad[:2]),
                           Violation("bytes-depend-on-hash-seed", "%s: PYTHONHASHSEED=%s gives %s, parent gives %s" % (item["format"], bad[0], res[bad[0]][i][:40], mine[i][:16])))
            break
        ctx._account(sub, item, {"nontrivial": siblings(item["format"], item["desc"]), "labels": [item["format"]]}, True)
    sub.notes.append("hash seeds: %s" % ",".join(seeds))


REPLAY = {"construction-order": inprocess_case, "hash-seeds": hashseed_case}
