"""C14 Release IDs round-trip; validators accept exactly the documented names."""
import itertools

from hypothesis import strategies as st

from pbt import gen
from pbt.runner import must, check, refuses, Violation

PROPERTY = "C14"
LEVEL = "exploration"
RULE = ("(a) bounded-exhaustive: every string up to length 6 (quick) / 8 (thorough) over the alphabet {a,A,1,-,.,@,_} is "
        "given to the three validity predicates and compared with two hand-written, regex-free reference predicates; "
        "(b) Hypothesis-generated (short, version, type[, base product]) tuples accepted by create_release_id are parsed "
        "back, with and without base product in both orders inside one process; (c) generated arbitrary triples: "
        "create_release_id raises ValueError exactly when a reference predicate rejects a part. Non-trivial: (a) string of "
        "length >= 2, (b) short contains a dash or type != ga or a base product is present, (c) at least one part invalid. "
        "Sub-check (a) is exhaustive for its bound.")
ASSUMPTIONS = ["'other' characters are represented by '_', a non-ASCII digit, a non-ASCII letter and the line break (and ' ' in sub-check c); what follows the first character of a free-form version is one line of text (the pattern's '.'); a line break as the first character counts as 'not a digit'"]
FLOORS = {"distinct_nontrivial": 2000, "roundtrip": 300, "refusal:refused": 200}

ALPHABET = "aA1-.@_"


def ref_short(s):
    """lower-case letter, then lower-case alphanumerics in non-empty dash-separated segments"""
    if not s or not ("a" <= s[0] <= "z"):
        return False
    for seg in s.split("-"):
        if not seg:
            return False
        for ch in seg:
            if not ("a" <= ch <= "z" or "0" <= ch <= "9"):
                return False
    return True


def ref_version(s):
    """dot-separated decimal integers, or any non-empty single-line string not starting with a digit"""
    if not s or "\n" in s[1:]:      # what follows the first character is one line of text
        return False
    if not ("0" <= s[0] <= "9"):
        return True
    for part in s.split("."):
        if not part:
            return False
        for ch in part:
            if not ("0" <= ch <= "9"):
                return False
    return True


def predicate_case(s):
    import productmd.common as c
    got = (must("short", c.is_valid_release_short, s), must("version", c.is_valid_release_version, s),
           must("type", c.is_valid_release_type, s))
    want = (ref_short(s), ref_version(s), ref_short(s))
    check(got == want, "predicate-disagrees", lambda: "string %r: (short, version, type) = %r, reference says %r" % (s, got, want))
    for g in got:
        check(g is True or g is False, "predicate-not-bool", "predicate returned %r" % (g,))
    return {"nontrivial": len(s) >= 2, "labels": ["accepted-by-some" if any(want) else "rejected-by-all"]}


def all_strings(maxlen):
    for n in range(maxlen + 1):
        for t in itertools.product(ALPHABET, repeat=n):
            yield "".join(t)


# ---- (b) round trip --------------------------------------------------------------------------------------------
_short = st.one_of(
    st.sampled_from(["rhel", "f", "fedora", "foo-bar", "rhscl", "a-1", "sat-tools", "x1-y2-z3", "ga", "eus", "a-ga", "updates", "b-fast"]),
    st.builds(lambda h, segs: "-".join([h] + segs), st.from_regex(r"[a-z][a-z0-9]{0,5}", fullmatch=True),
              st.lists(st.from_regex(r"[a-z0-9]{1,4}", fullmatch=True), max_size=2)),
)
_version = st.one_of(
    st.sampled_from(["7", "7.2", "20", "1.0.0", "rawhide", "Rawhide", "f.1", "2.4", "007", "ga", "eus", "x.fast", "updates", "testing", "1.aus"]).filter(ref_version),
    st.sampled_from(["rawhide ", " x", "Branched\t", " ", "a b ", ".", "_", "X ", "~"]),     # free-form means free-form: blanks at the edges included
    st.sampled_from(["{version}", "{short}", "{}", "{0}", "a{b", "}{", "{{x}}", "%s", "%(short)s", "%%", "\\1", "\\g<0>", "$1", "${x}", "<x>", "`x`", "x'y", 'x"y', "#x", ";x"]),   # text other layers give a meaning to
    st.lists(st.integers(0, 999).map(str), min_size=1, max_size=4).map(".".join),
    st.builds(lambda a, b: a + b, st.sampled_from(list("abzRX_.~+ ")), st.text(st.sampled_from(list("abzXY019._+~ ")), max_size=6)),
)
_type = st.sampled_from(gen.RELEASE_TYPES)
_triple = st.tuples(_short, _version, _type)
roundtrip_strategy = st.fixed_dictionaries({"rel": _triple, "bp": st.one_of(st.none(), _triple), "order": st.sampled_from([0, 1])})


def is_known_class(triple):
    """KF-C14-dashed-short-ga: dashed short name with implicit 'ga' cannot be parsed back (the encoding is ambiguous)"""
    return "-" in triple[0] and triple[2] == "ga"


_TYPES_AT_IMPORT = []


def other_use_of_the_type_table(k):
    """the same process also validates documents: a release (or base product) with an unknown type is refused somewhere else"""
    import productmd.common as c
    import productmd.composeinfo as ci
    import productmd.treeinfo as ti
    if not _TYPES_AT_IMPORT:
        _TYPES_AT_IMPORT.append(list(c.RELEASE_TYPES))
    if k % 3 == 0:
        return
    for obj in ((ci.ComposeInfo().release, ci.ComposeInfo().base_product) if k % 3 == 1 else (ti.TreeInfo().release,)):
        obj.name, obj.short, obj.version = "Fedora", "f", "23"
        if hasattr(obj, "type"):
            obj.type = "beta" if k % 2 else "Updates_Testing"
        try:
            obj.validate()
        except (ValueError, TypeError):
            pass


def roundtrip_case(case):
    import productmd.common as c
    rel, bp = tuple(case["rel"]), (tuple(case["bp"]) if case["bp"] else None)
    other_use_of_the_type_table(len(rel[0]) + len(rel[1]) + case["order"])
    check(list(c.RELEASE_TYPES) == _TYPES_AT_IMPORT[0], "type-table-changed", lambda: "productmd.common.RELEASE_TYPES is now %r, was %r when first seen" % (list(c.RELEASE_TYPES), _TYPES_AT_IMPORT[0]))
    if is_known_class(rel) or (bp and is_known_class(bp)):
        return {"nontrivial": False, "labels": ["excluded-known"]}
    want_plain = {"short": rel[0], "version": rel[1], "type": rel[2]}
    plain_id = must("create", c.create_release_id, *rel)
    check(plain_id == "%s-%s" % rel[:2] + ("" if rel[2] == "ga" else "-" + rel[2]), "id-format", "create_release_id%r = %r" % (rel, plain_id))
    steps = [(plain_id, want_plain)]
    if bp:
        full_id = must("create-bp", c.create_release_id, rel[0], rel[1], rel[2], bp[0], bp[1], bp[2])
        bp_id = must("create", c.create_release_id, *bp)
        check(full_id == plain_id + "@" + bp_id, "id-format", "create_release_id with base product = %r" % full_id)
        want_full = dict(want_plain, bp_short=bp[0], bp_version=bp[1], bp_type=bp[2])
        # both orders inside one process: parsing one form must not influence parsing the other
        steps = [(full_id, want_full), (plain_id, want_plain), (full_id, want_full)] if case["order"] else \
                [(plain_id, want_plain), (full_id, want_full), (plain_id, want_plain)]
    for rid, want in steps:
        got = must("parse", c.parse_release_id, rid)
        check(got == want, "roundtrip-differs", lambda: "parse_release_id(%r) = %r, created from %r" % (rid, got, want))
        got["poison"] = 1   # a caller modifying the result must not change later answers
    return {"nontrivial": "-" in rel[0] or rel[2] != "ga" or bp is not None,
            "labels": ["bp" if bp else "no-bp", "dashed-short" if "-" in rel[0] else "plain-short", rel[2]]}


# ---- (c) refusal agreement ---------------------------------------------------------------------------------------
_any = st.one_of(st.text(st.sampled_from(list("abA19-.@_ \n")), max_size=6), _short, _version, _type, st.sampled_from(["f\n", "1\n", "ga\n", "rawhide\n", "\nf", "7.2\n"]))
refusal_strategy = st.fixed_dictionaries({"short": _any, "version": _any, "type": _any, "bp": st.one_of(st.none(), st.tuples(_any, _any, _any))})


def refusal_case(case):
    import productmd.common as c
    ok = ref_short(case["short"]) and ref_version(case["version"]) and ref_short(case["type"])
    args = [case["short"], case["version"], case["type"]]
    if case["bp"] and case["bp"][0]:
        bp = case["bp"]
        ok = ok and ref_short(bp[0]) and ref_version(bp[1]) and ref_short(bp[2])
        args += list(bp)
    if ok:
        rid = must("create-valid-parts", c.create_release_id, *args)
        check(isinstance(rid, str) and rid.startswith(case["short"] + "-" + case["version"]), "id-format", "%r" % (rid,))
    else:
        refuses("create-invalid-parts", (ValueError,), c.create_release_id, *args)
    return {"nontrivial": not ok, "labels": ["accepted" if ok else "refused"]}


def witness_dashed_ga():
    import productmd.common as c
    rid = c.create_release_id("foo-bar", "1", "ga")
    got = c.parse_release_id(rid)
    if got != {"short": "foo-bar", "version": "1", "type": "ga"}:
        return "parse_release_id(create_release_id('foo-bar','1','ga')) = %r (dashed short with implicit ga)" % (got,)
    return None


WITNESSES = {"KF-C14-dashed-short-ga": witness_dashed_ga}


def run(ctx):
    maxlen = 8 if ctx.thorough else 6
    ctx.sweep("predicates", all_strings(maxlen), predicate_case, exhaustive=True)
    ctx.sub("predicates").notes.append("all strings up to length %d over %r" % (maxlen, ALPHABET))
    # 'other' characters that LOOK like members of the documented classes: a non-ASCII decimal digit, a non-ASCII letter
    wide = "a1-.\u0663\u00e9\uff14\n"
    ctx.sweep("predicates-non-ascii", ("".join(t) for n in range(1, (6 if ctx.thorough else 5) + 1) for t in itertools.product(wide, repeat=n)), predicate_case, exhaustive=True)
    ctx.sub("predicates-non-ascii").notes.append("all strings up to length %d over %r" % (6 if ctx.thorough else 5, wide))

    def counted(case):
        info = roundtrip_case(case)
        if "excluded-known" in info["labels"]:
            ctx.sub("roundtrip").excluded_known += 1
        return info
    ctx.forall("roundtrip", roundtrip_strategy, counted, ctx.n(4000, 200000))
    ctx.forall("refusal", refusal_strategy, refusal_case, ctx.n(4000, 200000))


REPLAY = {"predicates-non-ascii": predicate_case, "predicates": predicate_case, "roundtrip": roundtrip_case, "refusal": refusal_case}
