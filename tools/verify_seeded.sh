#!/bin/bash
# tools/verify_seeded.sh <seeded-id>: confirm a seeded change: demo passes on HEAD, fails with the patch, repo tests stay green
ID="$1"; HERE="$(cd "$(dirname "${BASH_SOURCE[0]}")/.." && pwd)"; S="$HERE/seeded/$ID"
SCRATCH="$(mktemp -d /tmp/pmd-seed.XXXXXX)"; trap 'rm -rf "$SCRATCH"' EXIT
git -C /repo archive HEAD | tar -x -C "$SCRATCH"
sed "s#/tmp/wt/$ID#$SCRATCH#g" "$S/demo.py" > "$SCRATCH/demo.py"
(cd "$SCRATCH" && timeout 600 /venv/bin/python demo.py >/dev/null 2>&1); a=$?
(cd "$SCRATCH" && patch -p1 -s < "$S/patch.diff") || { echo "$ID PATCH-DOES-NOT-APPLY"; exit 3; }
T=$(cd "$SCRATCH" && /venv/bin/python -m pytest -q -p no:cacheprovider tests 2>&1 | tail -1)
(cd "$SCRATCH" && timeout 600 /venv/bin/python demo.py >/dev/null 2>&1); b=$?
echo "$ID demo_on_head=$a demo_with_patch=$b tests: $T"
