#!/bin/bash
# tools/seeded_matrix.sh [id ...]: run the target property's quick check (and any extra properties listed in
# seeded/<id>/also) against every seeded change; prints "id property exit" lines
HERE="$(cd "$(dirname "${BASH_SOURCE[0]}")/.." && pwd)"; cd "$HERE"
IDS="${@:-$(ls seeded)}"
for ID in $IDS; do
  P="${ID%%-*}"
  EXTRA=""; [ -f seeded/$ID/also ] && EXTRA="$(cat seeded/$ID/also)"
  out=$(tools/try_patch.sh seeded/$ID/patch.diff $P $EXTRA 2>&1)
  tests=$(echo "$out" | grep "repo tests" | sed 's/repo tests on mutant: //')
  echo "$out" | grep -E "^--- " | while read -r _ prop ex; do
     buckets=$(echo "$out" | awk -v p="--- $prop" '$0 ~ p {f=1; next} /^--- /{f=0} f' | grep -oE "bucket=[^ ]+" | sort -u | tr '\n' ' ')
     echo "$ID $prop $ex [$tests] $buckets"
  done
done
