#!/bin/bash
# tools/try_patch.sh <patch.diff> <Cxx> [<Cyy> ...]   -- sensitivity experiment (DESIGN.md section 6)
# Applies the patch to a scratch copy of /repo's HEAD outside /repo and /verif, runs the repository's own tests
# on the copy, then the quick checks with VERIF_REPO pointing at the copy; removes the copy afterwards.
PATCH="$(realpath "$1")"; shift
HERE="$(cd "$(dirname "${BASH_SOURCE[0]}")/.." && pwd)"
SCRATCH="$(mktemp -d /tmp/pmd-mut.XXXXXX)"
trap 'rm -rf "$SCRATCH"' EXIT
git -C /repo archive HEAD | tar -x -C "$SCRATCH"
if ! git -C "$SCRATCH" apply --unsafe-paths --directory="$SCRATCH" "$PATCH" 2>/dev/null; then
    (cd "$SCRATCH" && patch -p1 -s < "$PATCH") || { echo "PATCH-DOES-NOT-APPLY"; exit 3; }
fi
T=$(cd "$SCRATCH" && /venv/bin/python -m pytest -q -p no:cacheprovider tests 2>&1 | tail -1)
echo "repo tests on mutant: $T"
for P in "$@"; do
    out=$(cd "$HERE" && VERIF_REPO="$SCRATCH" VERIF_EVIDENCE_DIR="$SCRATCH/evidence" VERIF_REPLAY_DIR="$SCRATCH/replays" ./check "$P" --tier "${TIER:-quick}" 2>&1)
    rc=$?
    echo "--- $P exit=$rc"
    echo "$out" | grep -E "VIOLATION|bucket|HARNESS|KNOWN|cases" | head -8
done
