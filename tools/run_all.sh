#!/bin/bash
# tools/run_all.sh [tier] [seed ...]: every registered check once per seed; prints one line per run
HERE="$(cd "$(dirname "${BASH_SOURCE[0]}")/.." && pwd)"; cd "$HERE"
TIER="${1:-quick}"; shift
SEEDS="${@:-1}"
for SEED in $SEEDS; do
  for P in C01 C02 C03 C04 C05 C06 C07 C08 C09 C10 C11 C12 C13 C14 C15 C16 C17 C18 C19 C20; do
    t0=$(date +%s.%N)
    out=$(env VERIF_SEED=$SEED ${EVDIR:+VERIF_EVIDENCE_DIR=$EVDIR} ./check $P --tier $TIER 2>&1); rc=$?
    t1=$(date +%s.%N)
    printf "seed=%s %s exit=%d %.1fs %s\n" "$SEED" "$P" "$rc" "$(echo "$t1 - $t0" | bc)" "$(echo "$out" | grep -E "cases," | cut -c1-90)"
    if [ $rc -ne 0 ]; then echo "$out" | grep -vE "^KNOWN" | head -6 | cut -c1-300; fi
  done
done
