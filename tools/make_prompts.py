#!/venv/bin/python
"""tools/make_prompts.py <letter> <outdir> [focus-file]: one prompt per property for a fresh sub-agent that is to seed a
realistic regression (DESIGN.md section 6.1).  The prompt carries only the property's text and the one-line descriptions of
what earlier authors already tried for it (parsed from the tables of DESIGN.md) - nothing about how /verif checks anything."""
import json
import os
import re
import sys

HERE = os.path.dirname(os.path.dirname(os.path.abspath(__file__)))

TEMPLATE = """You are helping to measure how robust a verification effort is, by seeding a realistic regression.
Work ONLY inside the git worktree {wt} (a checkout of the pure-Python library `productmd`). Do NOT read, list or touch /verif or /repo, and do not look at other directories under /tmp/wt.

Note: `/venv/bin/python` has productmd installed in editable mode pointing elsewhere, so any script you write MUST begin with
    import sys; sys.path.insert(0, "{wt}")
    import productmd; assert productmd.__file__.startswith("{wt}")
(the repository's own tests already do the equivalent).

PROPERTY that the library is supposed to satisfy ({pid}: {title}):
  Statement: {statement}
  Quantified over: {quant}

TASK: make a small, realistic change to the library source (files under {wt}/productmd/ only) - the kind of regression a maintainer could plausibly introduce during a refactor, optimisation, or feature tweak - that BREAKS the property above, while
  (1) the package still imports, and
  (2) the existing test suite still passes completely: `cd {wt} && /venv/bin/python -m pytest -q -p no:cacheprovider tests` (all 90 tests pass).
The break must need something specific to manifest - a multi-step sequence of operations, an unusual-but-legal input, a particular combination of options or format version, a fault at a particular point, or two cooperating code sites that each look fine alone - NOT something that ordinary use would expose at once. Do not special-case on magic constants (no `if name == "xyzzy"`); it must read like a plausible bug. Keep it small (a few lines).
{focus}
ALREADY TRIED for this property (do something GENUINELY DIFFERENT - a different code site AND a different trigger; read ALL the relevant source carefully, including helper classes and code shared with other formats, and look for a clause of the statement, a region of the quantifier, a helper or an interaction that none of these touches; prefer a break whose wrong result is SILENT - no exception - and self-consistent, so that only a comparison with what was put in reveals it):
{tried}

DELIVER (all inside {wt}):
  1. Leave the change as UNCOMMITTED modifications in the worktree (do not commit, do not modify tests/).
  2. {wt}/demo.py - a standalone script using only the public API that exits 0 on the original code and exits non-zero (failed assert / uncaught exception) with your change. Verify both yourself: run it with your change, then `git stash`, run it again, then `git stash pop`.
  3. {wt}/meta.txt - 3-8 lines: what you changed and why it breaks the property, what exactly is needed for it to manifest, and the commands you ran with their outcome. Write meta.txt LAST, after all verification is done.
Finish with a brief summary of the change (file, lines, trigger).
"""


def main():
    letter, outdir = sys.argv[1], sys.argv[2]
    focus = ""
    if len(sys.argv) > 3:
        focus = "\n" + open(sys.argv[3]).read().strip() + "\n"
    tried = {}
    for line in open(os.path.join(HERE, "DESIGN.md")):
        m = re.match(r"\| (C\d\d)-[a-z]\*? \| (.*?) \|", line)
        if m:
            tried.setdefault(m.group(1), []).append(m.group(2).strip())
    os.makedirs(outdir, exist_ok=True)
    for line in open(os.path.join(HERE, "properties.jsonl")):
        p = json.loads(line)
        pid = p["id"]
        wt = "/tmp/wt/%s-%s" % (pid, letter)
        text = TEMPLATE.format(wt=wt, pid=pid, title=p["title"], statement=p["statement"], quant=p["quantifier"]["text"], focus=focus,
                               tried="\n".join("  - " + t for t in tried.get(pid, [])) or "  (nothing yet)")
        with open(os.path.join(outdir, "%s-%s.txt" % (pid, letter)), "w") as fo:
            fo.write(text)
    print("wrote %d prompts to %s" % (len(tried), outdir))


if __name__ == "__main__":
    main()
