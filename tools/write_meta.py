#!/venv/bin/python
"""tools/write_meta.py <matrix-log> <history.json> : write seeded/<id>/meta.json for every id named in history.json
(id -> "detected at once" / "missed at first: ...") from the author's meta.txt and the lines tools/seeded_matrix.sh printed."""
import json
import os
import re
import sys

HERE = os.path.dirname(os.path.dirname(os.path.abspath(__file__)))


def main():
    log, hist = sys.argv[1], json.load(open(sys.argv[2]))
    rows = {}
    for line in open(log):
        m = re.match(r"(\S+) (C\d\d) exit=(\d+) \[(.*?)\] ?(.*)", line.strip())
        if m:
            rows.setdefault(m.group(1), []).append({"check": m.group(2), "exit": int(m.group(3)), "repo_tests": m.group(4),
                                                    "buckets": sorted(set(b.split("=", 1)[1] for b in m.group(5).split() if b.startswith("bucket=")))})
    for sid, history in sorted(hist.items()):
        d = os.path.join(HERE, "seeded", sid)
        patch = open(os.path.join(d, "patch.diff")).read()
        files = sorted(set(re.findall(r"^\+\+\+ b/(\S+)", patch, re.M)))
        txt = os.path.join(d, "meta.txt")
        meta = {
            "id": sid, "property": sid.split("-")[0], "files_changed": files,
            "author": "independent sub-agent given only the property text and a scratch worktree (nothing from /verif)",
            "what_it_breaks_and_needs_to_manifest": open(txt).read().strip() if os.path.exists(txt) else "",
            "confirmed_by": [
                "tools/verify_seeded.sh %s  -> demo.py exits 0 on /repo HEAD, non-zero with patch.diff applied; repository tests on the patched copy: 90 passed" % sid,
                "tools/seeded_matrix.sh %s  -> quick check(s) against a scratch copy with the patch (VERIF_REPO), see 'detected_by'" % sid],
            "detected_by": [r for r in rows.get(sid, []) if r["exit"] == 1],
            "detected": any(r["exit"] == 1 for r in rows.get(sid, [])),
            "history": history,
        }
        with open(os.path.join(d, "meta.json"), "w") as fo:
            json.dump(meta, fo, indent=1)
        print(sid, meta["detected"], [r["check"] for r in meta["detected_by"]])


if __name__ == "__main__":
    main()
