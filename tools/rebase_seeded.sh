#!/bin/bash
# tools/rebase_seeded.sh <id> ...: re-create seeded/<id>/patch.diff against /repo HEAD when only the context of its hunks moved
# (patch --fuzz=3 on a scratch export); prints the rejects when a hunk needs a hand
HERE="$(cd "$(dirname "${BASH_SOURCE[0]}")/.." && pwd)"
for ID in "$@"; do
  S="$(mktemp -d /tmp/pmd-rb.XXXXXX)"
  git -C /repo archive HEAD | tar -x -C "$S"
  (cd "$S" && git init -q && git add -A && git -c user.email=x@x -c user.name=x commit -qm base)
  if (cd "$S" && patch -p1 -s -F3 --no-backup-if-mismatch < "$HERE/seeded/$ID/patch.diff" > "$S/.out" 2>&1); then
    (cd "$S" && git diff -- productmd > "$HERE/seeded/$ID/patch.diff"); echo "$ID re-based"
  else
    echo "$ID NEEDS-A-HAND"; cat "$S/.out"; find "$S" -name '*.rej' -exec cat {} \;
  fi
  rm -rf "$S"
done
