#!/venv/bin/python
"""Regenerates /verif/MANIFEST.json from the property modules that exist (run from /verif)."""
import json
import os
import sys

HERE = os.path.dirname(os.path.dirname(os.path.abspath(__file__)))
sys.path.insert(0, HERE)

TECHNIQUE = {
    "C01": "property-based round-trip testing (Hypothesis) against a description-derived snapshot and a reference JSON document model; written and loaded objects are revised in place and written again; readers that refused another document first",
    "C02": "property-based round-trip testing (Hypothesis) against description-derived per-cell multisets and a reference JSON document model; change-and-write-again; border-of-domain records must be refused or come back unchanged",
    "C03": "property-based testing of generated add-call histories; re-read mapping compared with a hand-written reference model",
    "C04": "property-based round-trip testing (Hypothesis); independent re-reading with stdlib RawConfigParser against a reference INI model",
    "C05": "property-based testing over generated down-converted documents (per format and version) plus all shipped fixtures; description-derived upgrade oracle + idempotence",
    "C06": "property-based single-corruption testing over a hand-written rule table (object level) with converse enumeration sweep; table sweep repeated in fresh interpreters after generated caller-side validate() calls",
    "C07": "property-based single-corruption testing of documents over a hand-written rule table plus metamorphic load=>dump=>reload fuzzing (structured mutation; atheris in thorough tier)",
    "C08": "metamorphic property-based testing: construction-order permutations, repeated dumps, and child interpreters with different PYTHONHASHSEED values must give identical bytes",
    "C09": "model-based testing of generated operation sequences against a dict model, checked after every step",
    "C10": "bounded-exhaustive architecture sweep plus property-based testing of generated legacy documents with description-derived re-filing oracle",
    "C11": "model-based testing of generated operation sequences against a reference forest with invariants after every step",
    "C12": "model-based testing of generated add-call sequences against hand-written reference models, deep comparison after every step",
    "C13": "property-based testing with a constructive grammar generator (parse = inverse of assembly) plus bounded-exhaustive small-alphabet sweep",
    "C14": "bounded-exhaustive enumeration against regex-free reference predicates plus property-based round-trip and refusal-agreement testing",
    "C15": "property-based encode/decode round-trip testing plus exhaustive cross product of the small enumerations and generated legacy documents",
    "C16": "differential property-based testing against one-shot hashlib digests, hand-written [checksums] sections, and a dict model for add_checksum sequences",
    "C17": "property-based testing with an independent INI reader (reference [general] model, intra-file agreement) plus metamorphic compatibility-sections-only reload; changed-and-rewritten trees; id-keyed top-level variants",
    "C18": "fault enumeration: every validator of every nested object is made to fail in turn (injected inside the harness) over six destination states, plus planted real invalid / unwritable / unencodable values and a child process under an ASCII locale; file bytes compared before/after",
    "C19": "generated pump-family inputs for every regular expression observed at the re boundary and for every public parser/validator, number-shaped text in converted fields, and documents whose structure is pumped; CPU-time cost model (bound for short inputs and small documents, growth ratio for long ones)",
    "C20": "property-based testing over generated directory layouts in temp dirs (rebuilt under the same path, opened by several objects in different access orders); oracle = direct load of the file the description placed in the resolved location",
}
LEVEL_TEXT = {
    "exploration": "generated-input search: every generated case is decided by an oracle that does not share code with productmd (description, reference model, independent reader or metamorphic relation); shrunk failures become replay files. It samples the quantifier's domain; it does not establish absence of violations outside the explored cases.",
    "fault_enumeration": "for every generated object the set of validator fault points reachable from it is enumerated completely (one injected failure at a time, first and later firings) and the destination bytes are compared before and after the failing dump; real invalid values are generated in addition.",
}
NOTE = {
    "C14": "the predicate sub-check is exhaustive for its length bound; the round-trip and refusal sub-checks are sampled; KF-C14-dashed-short-ga is excluded by construction and witnessed",
    "C15": "KF-C15-8digit-respin (respin >= 10^7) is excluded by construction and witnessed",
    "C04": "KF-C04-toplevel-key-id is excluded by construction (top-level variants stored under their UID) and witnessed",
    "C19": "empirical cost model, not an ambiguity proof of the automata; CPU time with two-orders-of-magnitude margins",
}


def main():
    props = [json.loads(l) for l in open(os.path.join(HERE, "properties.jsonl"))]
    os.environ.setdefault("VERIF_REPO", "/repo")
    sys.path.insert(0, "/repo")
    checks, missing, serves = [], [], []
    for p in props:
        pid = p["id"]
        path = os.path.join(HERE, "pbt", "props", pid.lower() + ".py")
        if not os.path.exists(path):
            missing.append(pid)
            continue
        mod = __import__("pbt.props.%s" % pid.lower(), fromlist=["x"])
        serves.append(pid)
        checks.append({
            "property_id": pid,
            "quick_cmd": "./check %s --tier quick" % pid,
            "thorough_cmd": "./check %s --tier thorough" % pid,
            "evidence_file": "evidence/%s.json" % pid,
            "replay_cmd_template": "./check %s --replay {path}" % pid,
            "engine": "pbt",
            "technique": TECHNIQUE[pid],
            "level_claimed": {"category": mod.LEVEL, "text": LEVEL_TEXT[mod.LEVEL] + " " + mod.RULE, "design_ref": "DESIGN.md section 4 %s" % pid},
            "level_note": "trusted base: Hypothesis, the Python stdlib (json, configparser, hashlib) and the hand-written reference models/oracles under pbt/; "
                          + "; ".join(getattr(mod, "ASSUMPTIONS", [])) + ("; " + NOTE[pid] if pid in NOTE else ""),
        })
    manifest = {
        "version": 1,
        "setup_cmd": "./setup.sh",
        "hooks": {
            "guard": "PRODUCTMD_VERIF",
            "enable": "no hooks exist: every property is observed through the public API, returned text, exception types, the file system and CPU time; fault injection (C18) and the re inventory (C19) are monkey-patches inside the harness process. Checks import productmd straight from /repo's working tree (pure Python, nothing to build).",
            "baseline_off_cmd": "cd /repo && /venv/bin/python -m pytest -ra -q -p no:cacheprovider --timeout=900 tests",
            "source_commits": [],
            "add_only": True,
        },
        "engines": [{"name": "pbt", "path": "pbt/", "serves_properties": serves,
                     "kind_free_text": "Hypothesis strategies -> JSON case descriptions -> public-API builders -> description-derived oracles / reference models; bounded-exhaustive sweeps where the domain is finite; shrunk failures become replay files (./check Cxx --replay FILE runs them without Hypothesis)"}],
        "checks": checks,
        "notes": "VERIF_SEED selects the Hypothesis seed (default 1); exit 2 = harness error (never a verdict). Known findings: known_findings.txt. Seeded changes used to test the checks: seeded/.",
        "not_applicable": [{"property_id": pid, "reason": "check not built yet in this session (planned; see DESIGN.md section 4)"} for pid in missing],
    }
    with open(os.path.join(HERE, "MANIFEST.json"), "w") as fo:
        json.dump(manifest, fo, indent=1)
    print("claimed:", " ".join(serves))
    print("not claimed:", " ".join(missing))


if __name__ == "__main__":
    main()
