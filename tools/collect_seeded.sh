#!/bin/bash
# tools/collect_seeded.sh <suffix>: move finished sub-agent worktrees /tmp/wt/Cxx-<suffix> into seeded/ (never overwrites)
HERE="$(cd "$(dirname "${BASH_SOURCE[0]}")/.." && pwd)"; cd "$HERE"
for d in /tmp/wt/C*-"$1"; do
  [ -d "$d" ] || continue
  id=$(basename "$d")
  if [ -s "seeded/$id/patch.diff" ]; then echo "$id already collected"; continue; fi
  if [ -f "$d/demo.py" ] && [ -f "$d/meta.txt" ]; then
    mkdir -p "seeded/$id"; git -C "$d" diff > "seeded/$id/patch.diff"; cp "$d/demo.py" "$d/meta.txt" "seeded/$id/"
    tools/verify_seeded.sh "$id" && git -C /repo worktree remove --force "$d"
  else echo "$id not ready"; fi
done
